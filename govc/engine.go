package main

// Core data structures of the VC generator: SMT text building, Go-type -> SMT-sort mapping,
// symbolic state (local cells + Burstall-style heap components), locations.

import (
	"fmt"
	"go/token"
	"go/types"
	"regexp"
	"sort"
	"strings"

	"golang.org/x/tools/go/ssa"
)

const modPrefix = "github.com/jsightapi/jsight-schema-core/"
const modPath = "github.com/jsightapi/jsight-schema-core"

type unsupported struct{ why string }

func unsup(f string, a ...any) { panic(unsupported{fmt.Sprintf(f, a...)}) }

func qualifier(p *types.Package) string {
	if p == nil {
		return ""
	}
	path := p.Path()
	if path == modPath {
		return "schema"
	}
	return strings.TrimPrefix(path, modPrefix)
}

var reByteRune = regexp.MustCompile(`\b(byte|rune)\b`)

// typeName: canonical printed form of a Go type (byte/rune are printed as uint8/int32, so that the
// aliases never name two different heap components for the same memory).
func typeName(t types.Type) string {
	s := types.TypeString(t, qualifier)
	if strings.Contains(s, "byte") || strings.Contains(s, "rune") {
		s = reByteRune.ReplaceAllStringFunc(s, func(m string) string {
			if m == "byte" {
				return "uint8"
			}
			return "int32"
		})
	}
	return s
}

// q quotes an SMT symbol.
func q(s string) string {
	s = strings.ReplaceAll(s, "|", "!")
	s = strings.ReplaceAll(s, "\\", "!")
	return "|" + s + "|"
}

// ---------------------------------------------------------------------------------------------

type Obligation struct {
	Retried   bool // undecided in the parallel pass, decided (or not) again in the low-parallelism second pass
	Name      string
	Kind      string // post, inv-entry, inv-preserve, dec, pre, safe, frame, panic, dispatch, lemma, vacuity
	Fn        string
	Goal      string // SMT Bool term; query is: asserts[:NAssert] /\ not Goal
	NAssert   int
	Pos       token.Position
	Desc      string
	ExpectSat bool // vacuity / cover obligations
	Props     []string
	Scoped    bool // Props come from a property-scoped clause: only decided in checks of those properties
	vc        *VC
	// results
	Status  string // unsat | sat | unknown | timeout | error
	Solver  string
	Time    float64
	Model   string
	RawOut  string
	Region  string // known-finding region applied (if any)
	Finding *Finding
	Results []Val // post obligations: result terms of the exit
}

// VC accumulates one SMT context (declarations + assertions in order) for one function under
// verification; each obligation is a prefix of that context plus a negated goal.
type VC struct {
	recCalled    string          // path condition under which recover() was called directly by the handler under verification
	recVal       string          // the value recover() yields in the handler under verification (rethrows contracts)
	usedAnchors  map[string]bool // contract anchors that matched a program point
	prog         *Program
	fnName       string
	declared     map[string]bool
	compSorts    map[string]string
	nonNil       map[string]bool
	compTypes    map[string]types.Type
	knownTag     map[string]int
	boxedLocals  []boxed
	regions      map[string]string
	arrayLits    map[string][]string
	fresh_       map[string]bool
	storeDefs    map[string][3]string     // heap version constant -> (previous version, reference, stored value)
	closureBinds map[string][]Val         // closure terms -> the values bound at MakeClosure
	fnOfTerm     map[string]*ssa.Function // terms known to denote a specific function / closure
	fnSetOfTerm  map[string][]*ssa.Function // terms known to denote one of a few functions (merged paths)
	mergeDefs    map[string][]string        // merged heap version -> the versions it was merged from
	notBoolPred  map[string]bool            // closed spec functions that are not boolean (expanded as macros)
	deferred     []string
	asserts      []string
	obligs       []*Obligation
	counter      int
	notes        []string // inlined functions, assumed contracts, havocked calls...
	inlined      map[string]bool
	assumed      map[string]bool
	havocked     map[string]bool
	props        []string
	structs      map[string]bool
	litCache     map[string]string
	tags         map[string]int
	fnIDs        map[*ssa.Function]int
}

func newVC(p *Program, name string) *VC {
	return &VC{prog: p, fnName: name, declared: map[string]bool{}, inlined: map[string]bool{}, assumed: map[string]bool{},
		havocked: map[string]bool{}, structs: map[string]bool{}, litCache: map[string]string{}, compSorts: map[string]string{}, storeDefs: map[string][3]string{}, closureBinds: map[string][]Val{}, fresh_: map[string]bool{}, fnOfTerm: map[string]*ssa.Function{}, fnSetOfTerm: map[string][]*ssa.Function{}, mergeDefs: map[string][]string{}, notBoolPred: map[string]bool{}, arrayLits: map[string][]string{}, regions: map[string]string{}, nonNil: map[string]bool{}, compTypes: map[string]types.Type{}, knownTag: map[string]int{}, tags: map[string]int{}, fnIDs: map[*ssa.Function]int{}, usedAnchors: map[string]bool{}}
}

func (vc *VC) fresh(base string) string {
	vc.counter++
	return fmt.Sprintf("%s!%d", base, vc.counter)
}

func (vc *VC) declare(name, sort string) string {
	qn := q(name)
	if !vc.declared[qn] {
		vc.declared[qn] = true
		// declarations are interleaved with assertions so that every prefix of the context is closed
		vc.asserts = append(vc.asserts, fmt.Sprintf("(declare-const %s %s)", qn, sort))
	}
	return qn
}

func (vc *VC) declareFun(name string, args []string, ret string) string {
	qn := q(name)
	if !vc.declared[qn] {
		vc.declared[qn] = true
		vc.asserts = append(vc.asserts, fmt.Sprintf("(declare-fun %s (%s) %s)", qn, strings.Join(args, " "), ret))
	}
	return qn
}

func (vc *VC) rawDecl(key, text string) {
	if !vc.declared[key] {
		vc.declared[key] = true
		vc.asserts = append(vc.asserts, text)
	}
}

// freshConst declares a new constant and returns its (quoted) name.
func (vc *VC) freshConst(base, sort string) string {
	return vc.declare(vc.fresh(base), sort)
}

// define introduces a named constant equal to term (keeps terms small).
func (vc *VC) define(base, sort, term string) string {
	if len(term) < 24 && !strings.Contains(term, " ") {
		return term
	}
	if strings.HasPrefix(term, "|") && strings.Count(term, "|") == 2 && strings.HasSuffix(term, "|") {
		return term // a single quoted symbol
	}
	n := vc.freshConst(base, sort)
	vc.assert(fmt.Sprintf("(= %s %s)", n, term))
	if sort == "Fn" {
		if fn, ok := vc.fnOfTerm[term]; ok {
			vc.fnOfTerm[n] = fn
		}
		if set, ok := vc.fnSetOfTerm[term]; ok {
			vc.fnSetOfTerm[n] = set
		}
		if b, ok := vc.closureBinds[term]; ok {
			vc.closureBinds[n] = b
		}
	}
	return n
}

func (vc *VC) assert(f string) {
	if f == "true" {
		return
	}
	vc.asserts = append(vc.asserts, "(assert "+f+")")
}

func (vc *VC) assume(pc, f string) {
	if f == "true" {
		return
	}
	if pc == "true" {
		vc.assert(f)
	} else {
		vc.assert(fmt.Sprintf("(=> %s %s)", pc, f))
	}
}

// obligeLater: like oblige, but the fact is not assumed yet (callers assert a whole group afterwards, so
// that the members of the group are decided independently of each other).
func (vc *VC) obligeLater(kind, name, pc, goal string, pos token.Position, desc string) *Obligation {
	n := len(vc.asserts)
	o := vc.oblige(kind, name, pc, goal, pos, desc)
	last := vc.asserts[len(vc.asserts)-1]
	vc.asserts = vc.asserts[:n]
	vc.deferred = append(vc.deferred, last)
	return o
}

func (vc *VC) flushDeferred() {
	vc.asserts = append(vc.asserts, vc.deferred...)
	vc.deferred = nil
}

func (vc *VC) oblige(kind, name, pc, goal string, pos token.Position, desc string) *Obligation {
	g := goal
	if pc != "true" {
		g = fmt.Sprintf("(=> %s %s)", pc, goal)
	}
	// unique names
	base := name
	n := 1
	for {
		dup := false
		for _, o := range vc.obligs {
			if o.Name == name {
				dup = true
				break
			}
		}
		if !dup {
			break
		}
		n++
		name = fmt.Sprintf("%s~%d", base, n)
	}
	o := &Obligation{Name: name, Kind: kind, Fn: vc.fnName, Goal: g, NAssert: len(vc.asserts), Pos: pos, Desc: desc, vc: vc, Props: vc.props}
	vc.obligs = append(vc.obligs, o)
	// after checking, the fact may be assumed downstream — but only as far as it is claimed: an obligation
	// weakened by a known-finding region is assumed outside that region only
	if rg, ok := vc.regions[name]; ok && rg != "" {
		o.Goal = g
		vc.assert(fmt.Sprintf("(=> (not %s) %s)", rg, g))
	} else {
		vc.assert(g)
	}
	return o
}

// ---------------------------------------------------------------------------------------------
// sorts

func isInteger(t types.Type) bool {
	b, ok := t.Underlying().(*types.Basic)
	return ok && b.Info()&types.IsInteger != 0
}

func intRange(t types.Type) (lo, hi string, ok bool) {
	b, isb := t.Underlying().(*types.Basic)
	if !isb {
		return
	}
	switch b.Kind() {
	case types.Int, types.Int64:
		return "(- 9223372036854775808)", "9223372036854775807", true
	case types.Int32: // rune
		return "(- 2147483648)", "2147483647", true
	case types.Int16:
		return "(- 32768)", "32767", true
	case types.Int8:
		return "(- 128)", "127", true
	case types.Uint, types.Uint64, types.Uintptr:
		return "0", "18446744073709551615", true
	case types.Uint32:
		return "0", "4294967295", true
	case types.Uint16:
		return "0", "65535", true
	case types.Uint8:
		return "0", "255", true
	case types.UntypedInt, types.UntypedRune:
		return "", "", false
	}
	return
}

func (vc *VC) sortOf(t types.Type) string {
	switch u := t.(type) {
	case *types.Named:
		if st, ok := u.Underlying().(*types.Struct); ok {
			return vc.structSort(typeName(u), st)
		}
		return vc.sortOf(u.Underlying())
	case *types.Alias:
		return vc.sortOf(types.Unalias(u))
	case *types.Basic:
		switch {
		case u.Info()&types.IsInteger != 0:
			return "Int"
		case u.Info()&types.IsBoolean != 0:
			return "Bool"
		case u.Info()&types.IsString != 0:
			return "Str"
		case u.Info()&types.IsFloat != 0:
			return "Float"
		case u.Kind() == types.UnsafePointer:
			return "Int"
		case u.Kind() == types.UntypedNil:
			return "Int"
		}
	case *types.Pointer:
		return "Int"
	case *types.Slice:
		return "Slice"
	case *types.Map:
		return "Int"
	case *types.Chan:
		return "Int"
	case *types.Struct:
		return vc.structSort(typeName(u), u)
	case *types.Interface:
		return "Iface"
	case *types.Signature:
		return "Fn"
	case *types.Array:
		return "(Array Int " + vc.sortOf(u.Elem()) + ")"
	case *types.Tuple:
		unsup("tuple sort")
	case *types.TypeParam:
		unsup("uninstantiated type parameter %s", u)
	}
	unsup("no SMT sort for Go type %s", t)
	return ""
}

func (vc *VC) structSort(name string, st *types.Struct) string {
	sn := q(name)
	if vc.structs[name] {
		return sn
	}
	vc.structs[name] = true
	var fields []string
	for i := 0; i < st.NumFields(); i++ {
		f := st.Field(i)
		fields = append(fields, fmt.Sprintf("(%s %s)", fieldSel(name, f.Name(), i), vc.sortOf(f.Type())))
	}
	if len(fields) == 0 {
		vc.asserts = append(vc.asserts, fmt.Sprintf("(declare-datatypes ((%s 0)) (((%s))))", sn, q("mk "+name)))
	} else {
		vc.asserts = append(vc.asserts, fmt.Sprintf("(declare-datatypes ((%s 0)) (((%s %s))))", sn, q("mk "+name), strings.Join(fields, " ")))
	}
	return sn
}

func fieldSel(structName, field string, i int) string {
	if field == "_" {
		field = fmt.Sprintf("_%d", i)
	}
	return q(structName + "." + field)
}

func structOf(t types.Type) (*types.Struct, string, bool) {
	t = types.Unalias(t)
	st, ok := t.Underlying().(*types.Struct)
	if !ok {
		return nil, "", false
	}
	return st, typeName(t), true
}

// zero value term of a Go type
func (vc *VC) zero(t types.Type) string {
	switch u := types.Unalias(t).Underlying().(type) {
	case *types.Basic:
		switch {
		case u.Info()&types.IsInteger != 0:
			return "0"
		case u.Info()&types.IsBoolean != 0:
			return "false"
		case u.Info()&types.IsString != 0:
			return "str_empty"
		case u.Info()&types.IsFloat != 0:
			return "float_zero"
		}
		return "0"
	case *types.Pointer, *types.Map, *types.Chan:
		return "0"
	case *types.Slice:
		return "nil_slice"
	case *types.Interface:
		return "nil_iface"
	case *types.Signature:
		return "nil_fn"
	case *types.Struct:
		name := typeName(t)
		vc.structSort(name, u)
		if u.NumFields() == 0 {
			return q("mk " + name)
		}
		var fs []string
		for i := 0; i < u.NumFields(); i++ {
			fs = append(fs, vc.zero(u.Field(i).Type()))
		}
		return "(" + q("mk "+name) + " " + strings.Join(fs, " ") + ")"
	case *types.Array:
		return fmt.Sprintf("((as const %s) %s)", vc.sortOf(t), vc.zero(u.Elem()))
	}
	unsup("zero value of %s", t)
	return ""
}

// ---------------------------------------------------------------------------------------------
// values, locations, state

type LocKind int

const (
	LocLocal  LocKind = iota // non-escaping local cell
	LocRef                   // pointer to a heap object (struct fields in H components, other types in cell components)
	LocField                 // field of another location
	LocElem                  // element of a slice / array backing store
	LocGlobal                // package-level variable
	LocArray                 // pointer to a heap-allocated Go array (backing store id)
)

type Loc struct {
	Kind   LocKind
	Alloc  *ssa.Alloc
	Ref    string     // LocRef: SMT Int term;  LocArray: array id term
	Typ    types.Type // type of the value stored at this location
	Base   *Loc       // LocField
	Field  int
	Arr    string // LocElem: array id term
	Idx    string // LocElem: absolute index term (offset already added)
	Global *ssa.Global
}

type Val struct {
	T       string // SMT term (for pointers: the reference, when Loc == nil)
	Loc     *Loc   // pointer known as a symbolic location
	Tuple   []Val
	Typ     types.Type
	Sort    string // for spec-only values without a Go type
	Fn      *ssa.Function
	Content string   // spec values produced by old(...) / prev(...) of slice type: the backing array's content in THAT state
	Lit     []string // slice over a fresh array literal: its element terms (variadic arguments)
}

type State struct {
	cells  map[*ssa.Alloc]string
	heap   map[string]string
	alloc  string
	wr     *writeRec // dry runs: what has been written on the way to this state
	defers []deferRec
	// heap cells (escaping locals, captured variables) that currently hold an interior pointer, kept as a
	// symbolic location because such a pointer has no reference term: cell reference -> location
	ptrCells map[string]*Loc
	fnCells  map[string]*ssa.Function // fresh heap cells holding a statically known function value
}

func (s *State) clone() *State {
	n := &State{cells: make(map[*ssa.Alloc]string, len(s.cells)), heap: make(map[string]string, len(s.heap)), alloc: s.alloc}
	for k, v := range s.cells {
		n.cells[k] = v
	}
	for k, v := range s.heap {
		n.heap[k] = v
	}
	if s.wr != nil {
		n.wr = s.wr.clone()
	}
	n.defers = s.defers
	if len(s.ptrCells) > 0 {
		n.ptrCells = make(map[string]*Loc, len(s.ptrCells))
		for k, v := range s.ptrCells {
			n.ptrCells[k] = v
		}
	}
	if len(s.fnCells) > 0 {
		n.fnCells = make(map[string]*ssa.Function, len(s.fnCells))
		for k, v := range s.fnCells {
			n.fnCells[k] = v
		}
	}
	return n
}

// heap component access: components are created lazily as unconstrained initial arrays.
type compInfo struct {
	name string
	sort string
}

func (vc *VC) comp(st *State, name, sort string, vt ...types.Type) string {
	if len(vt) > 0 && vc.compTypes[name] == nil {
		vc.compTypes[name] = vt[0]
	}
	if t, ok := st.heap[name]; ok {
		return t
	}
	// first touch anywhere: the initial (entry) version; all states created later inherit it through
	// the root lookup below.
	fresh := !vc.declared[q("H0 "+name)]
	vc.ensureSorts(sort)
	init := vc.declare("H0 "+name, sort)
	vc.compSorts[name] = sort
	st.heap[name] = init
	if fresh {
		vc.assertCompWF(init, name, q("alloc0"))
	}
	return init
}

// ensureSorts declares (in this VC) every struct sort that a sort expression mentions: a sort string can reach a VC
// from elsewhere (the dry run of a loop, a contract's modifies clause) before any value of that type was seen here.
func (vc *VC) ensureSorts(sort string) {
	parts := strings.Split(sort, "|")
	for i := 1; i < len(parts); i += 2 {
		name := parts[i]
		if vc.structs[name] {
			continue
		}
		if name == "struct{}" {
			vc.sortOf(types.NewStruct(nil, nil))
			continue
		}
		if t := vc.prog.namedType(name); t != nil {
			if _, ok := t.Underlying().(*types.Struct); ok {
				vc.sortOf(t)
			}
		}
	}
}

func fieldComp(structName, field string) string { return "F " + structName + "." + field }
func elemComp(elem types.Type) string           { return "E " + typeName(elem) }
func cellComp(t types.Type) string              { return "C " + typeName(t) }
func globalComp(g *ssa.Global) string           { return "G " + qualifier(g.Pkg.Pkg) + "." + g.Name() }
func mapDomComp(m *types.Map) string            { return "Mdom " + typeName(m) }
func mapValComp(m *types.Map) string            { return "Mval " + typeName(m) }
func mapCardComp(m *types.Map) string           { return "Mcard " + typeName(m) }

func (vc *VC) fieldCompSort(ft types.Type) string { return "(Array Int " + vc.sortOf(ft) + ")" }
func (vc *VC) elemCompSort(et types.Type) string {
	return "(Array Int (Array Int " + vc.sortOf(et) + "))"
}

// mergeStates builds the join of several (cond, state) pairs.
func (vc *VC) mergeStates(conds []string, states []*State) *State {
	if len(states) == 1 {
		return states[0].clone()
	}
	out := &State{cells: map[*ssa.Alloc]string{}, heap: map[string]string{}}
	out.defers = states[0].defers
	if len(states[0].fnCells) > 0 {
		out.fnCells = map[string]*ssa.Function{}
		for k, v := range states[0].fnCells {
			same := true
			for _, o := range states[1:] {
				if o.fnCells[k] != v {
					same = false
				}
			}
			if same {
				out.fnCells[k] = v
			}
		}
	}
	if len(states[0].ptrCells) > 0 {
		out.ptrCells = map[string]*Loc{}
		for k, v := range states[0].ptrCells {
			same := true
			for _, o := range states[1:] {
				if o.ptrCells[k] != v {
					same = false
				}
			}
			if same {
				out.ptrCells[k] = v
			}
		}
	}
	for _, s := range states[1:] {
		if len(s.defers) != len(out.defers) {
			unsup("paths with different pending defers meet (conditional defer)")
		}
		for i := range s.defers {
			if s.defers[i].ins != out.defers[i].ins {
				unsup("paths with different pending defers meet (conditional defer)")
			}
		}
	}
	for _, s := range states {
		if s.wr != nil {
			if out.wr == nil {
				out.wr = newWriteRec()
			}
			out.wr.merge(s.wr)
		}
	}
	// cells: only those present in all
	cellKeys := map[*ssa.Alloc]bool{}
	for _, s := range states {
		for k := range s.cells {
			cellKeys[k] = true
		}
	}
	// deterministic order
	var cks []*ssa.Alloc
	for k := range cellKeys {
		cks = append(cks, k)
	}
	sort.Slice(cks, func(i, j int) bool {
		return cks[i].Pos() < cks[j].Pos() || (cks[i].Pos() == cks[j].Pos() && cks[i].Name() < cks[j].Name())
	})
	for _, k := range cks {
		var ts []string
		all := true
		for _, s := range states {
			t, ok := s.cells[k]
			if !ok {
				all = false
				break
			}
			ts = append(ts, t)
		}
		if !all {
			continue // not defined on every path: dead or re-initialised before use
		}
		out.cells[k] = vc.mergeTerms("m "+k.Comment, vc.sortOf(k.Type().(*types.Pointer).Elem()), conds, ts)
	}
	heapKeys := map[string]bool{}
	for _, s := range states {
		for k := range s.heap {
			heapKeys[k] = true
		}
	}
	var hks []string
	for k := range heapKeys {
		hks = append(hks, k)
	}
	sort.Strings(hks)
	for _, k := range hks {
		var ts []string
		for _, s := range states {
			t, ok := s.heap[k]
			if !ok {
				t = q("H0 " + k) // untouched on that path: initial version (declared by the path that touched it)
			}
			ts = append(ts, t)
		}
		out.heap[k] = vc.mergeTerms("mh", vc.compSorts[k], conds, ts)
	}
	var as []string
	for _, s := range states {
		as = append(as, s.alloc)
	}
	out.alloc = vc.mergeTerms("alloc", "Int", conds, as)
	return out
}

func (vc *VC) mergeTerms(base, sort string, conds, ts []string) string {
	same := true
	for _, t := range ts[1:] {
		if t != ts[0] {
			same = false
			break
		}
	}
	if same {
		return ts[0]
	}
	term := ts[len(ts)-1]
	for i := len(ts) - 2; i >= 0; i-- {
		term = fmt.Sprintf("(ite %s %s %s)", conds[i], ts[i], term)
	}
	n := vc.define(base, sort, term)
	if base == "mh" && n != term {
		vc.mergeDefs[n] = append([]string{}, ts...)
	}
	return n
}

// fnSetAt: the functions a function-typed field of object ref can hold in heap version c, when c is built from the
// version history by stores of known functions to that same object and merges of such versions only (nil = unknown)
func (vc *VC) fnSetAt(c, ref string, depth int) []*ssa.Function {
	if depth > 40 {
		return nil
	}
	if sd, ok := vc.storeDefs[c]; ok {
		if sd[1] != ref {
			return nil
		}
		if fn := vc.fnOfTerm[sd[2]]; fn != nil && len(fn.FreeVars) == 0 {
			return []*ssa.Function{fn}
		}
		if set, ok := vc.fnSetOfTerm[sd[2]]; ok {
			return set
		}
		return nil
	}
	if md, ok := vc.mergeDefs[c]; ok {
		var out []*ssa.Function
		seen := map[*ssa.Function]bool{}
		for _, b := range md {
			set := vc.fnSetAt(b, ref, depth+1)
			if set == nil {
				return nil
			}
			for _, fn := range set {
				if !seen[fn] {
					seen[fn] = true
					out = append(out, fn)
				}
			}
		}
		return out
	}
	return nil
}

func and(xs ...string) string {
	var ys []string
	for _, x := range xs {
		if x == "true" || x == "" {
			continue
		}
		if x == "false" {
			return "false"
		}
		ys = append(ys, x)
	}
	switch len(ys) {
	case 0:
		return "true"
	case 1:
		return ys[0]
	}
	return "(and " + strings.Join(ys, " ") + ")"
}

func or(xs ...string) string {
	var ys []string
	for _, x := range xs {
		if x == "false" || x == "" {
			continue
		}
		if x == "true" {
			return "true"
		}
		ys = append(ys, x)
	}
	switch len(ys) {
	case 0:
		return "false"
	case 1:
		return ys[0]
	}
	return "(or " + strings.Join(ys, " ") + ")"
}

func not(x string) string {
	switch x {
	case "true":
		return "false"
	case "false":
		return "true"
	}
	return "(not " + x + ")"
}

func implies(a, b string) string {
	if a == "true" {
		return b
	}
	if b == "true" {
		return "true"
	}
	return "(=> " + a + " " + b + ")"
}

func smtInt(v string) string {
	if strings.HasPrefix(v, "-") {
		return "(- " + v[1:] + ")"
	}
	return v
}

// Finding: an entry of /verif/known_findings.json.
type Finding struct {
	Property   string `json:"property"`
	Obligation string `json:"obligation"`
	Region     string `json:"region,omitempty"`
	Witness    string `json:"witness,omitempty"`
	What       string `json:"what"`
	Status     string `json:"status"` // "known" | "fixed"
	Commit     string `json:"commit,omitempty"`
}

// assertCompWF: every value stored in a heap component is well typed and refers only to allocated
// objects (a global invariant of Go memory; the obligations on stores and arithmetic keep it).
func (vc *VC) assertCompWF(term, name, alloc string) {
	if name == bufArrComp || name == poolBufsComp || name == poolArraysComp || name == poolHeldComp {
		return // the pool invariant is asserted for the three components together (poolWF)
	}
	vt := vc.compTypes[name]
	if vt == nil {
		return
	}
	switch {
	case strings.HasPrefix(name, "E "):
		v := fmt.Sprintf("(select (select %s a) i)", term)
		f := and(vc.typed(v, vt, 2), vc.refsBelow(v, vt, alloc, 2))
		if f != "true" {
			vc.assert(fmt.Sprintf("(forall ((a Int) (i Int)) (! %s :pattern (%s)))", f, v))
		}
	case strings.HasPrefix(name, "F "), strings.HasPrefix(name, "C "):
		v := fmt.Sprintf("(select %s r)", term)
		f := and(vc.typed(v, vt, 2), vc.refsBelow(v, vt, alloc, 2))
		if f != "true" {
			vc.assert(fmt.Sprintf("(forall ((r Int)) (! %s :pattern (%s)))", f, v))
		}
	}
}
