package main

// Parser for the structured-comment contract files (verif_contracts.go, //go:build verif).

import (
	"bufio"
	"fmt"
	"os"
	"path/filepath"
	"regexp"
	"strconv"
	"strings"
)

type Clause struct {
	Defines bool     // 'defines <e>': postcondition that defines uninterpreted spec functions by this function's own result: assumed, not proved
	Only    []string // property ids this clause is checked under ("ensures @C13 @C01 <e>"); empty = every property of the block
	E       Expr
	Src     string
	File    string
	Line    int
	// optional ghost witness bindings:  ensures P with g = e
}

type Hint struct {
	Kind string // "use" | "assert" | "set" | "setdef"
	E    Expr
	Src  string
	Line int
	// set / setdef:  L = E   |   L p :: forall x :: p[x] == body
	L    Expr
	Bind string
}

type LoopSpec struct {
	Invariants []Clause
	Decreases  []Clause
	Hints      []Hint // applied at loop head (after invariants are assumed)
}

type PanicSpec struct {
	When Clause // condition (over entry state) under which the function panics
	Code string // optional: errs code name the panic value must carry
}

type GhostDecl struct {
	Name string
	Type string
	Def  Expr // optional defining predicate (must be a prelude predicate marked ;@definitional)
	Src  string
}

type LetDecl struct {
	Name string
	E    Expr
	Src  string
}

type Contract struct {
	PkgPath    string
	Key        string // RelString of the function within its package
	Props      []string
	Requires   []Clause
	Decreases  []Clause // termination measure of a self-recursive function (lexicographic, every component bounded below by 0)
	Ensures    []Clause
	Modifies   []Clause
	NoPanic    bool
	Wraps      bool // unsigned 64-bit + and - are computed modulo 2^64 (machine semantics) instead of being proved not to wrap
	MayPanic   bool // run-time panics are not excluded: postconditions are about normal returns only
	OwnBounds  bool // with may_panic: index and slice operations written in the function itself (not in inlined callees) stay obligations
	Rethrows   bool // a deferred panic handler: whenever its recover() yields a non-nil value it panics again (proved)
	Panics     []PanicSpec
	PanicsWith []Clause // predicate over `panicvalue` that every panic leaving the function satisfies
	// PanicsOnly: function never returns normally under this condition
	Loops         map[int]*LoopSpec
	Hints         map[string][]Hint // anchor -> hints
	Lets          []LetDecl
	Ghosts        []GhostDecl
	Decls         []string // "let:<i>" / "ghost:<i>" in source order
	Trusted       bool     // contract assumed, body not verified (externals / out-of-subset): listed in evidence
	Inline        bool     // force inlining at call sites even though a contract exists
	NoInline      bool
	Pure          bool
	Witness       []string
	Assumes       []string // free-text assumptions echoed to evidence
	Dispatch      map[string][]string
	ReadsInit     []string // package-level variables whose initial value (set by the package initialiser, never written afterwards) is used
	PureCallbacks []string // parameter names whose calls are modelled as pure, total, uninterpreted functions
	File          string
	Line          int
	Matched       bool
}

type GhostField struct {
	PkgPath string
	Struct  string // type name within the package
	Field   string // "$name"
	Sort    string
}

type PredDecl struct {
	PkgPath string
	Name    string
	Params  []QVar
	Body    Expr
	Src     string
	File    string
	Line    int
}

type LemmaUse struct{}

type LemmaDecl struct {
	PkgPath  string
	Name     string
	Params   []QVar
	Props    []string
	Requires []Clause
	Ensures  []Clause
	File     string
	Line     int
}

type ContractSet struct {
	Lemmas      []*LemmaDecl
	Funcs       map[string]*Contract // pkgpath + "::" + key
	Preds       map[string]*PredDecl // name (package-qualified lookups try pkg first)
	GhostFields []*GhostField
	Files       []string
}

var reClauseLoop = regexp.MustCompile(`^loop#(\d+)\s+(invariant|decreases|use|assert)\s+(.*)$`)
var reAt = regexp.MustCompile(`^at\s+(\S+)\s+(use|assert|assume|set|setdef|bind)\s+(.*)$`)
var reLemma = regexp.MustCompile(`^lemma\s+([A-Za-z_][A-Za-z0-9_]*)\s*\((.*)\)\s*$`)
var rePred = regexp.MustCompile(`^(?:pred|fun)\s+([A-Za-z_][A-Za-z0-9_]*)\s*\((.*?)\)\s*(?:[A-Za-z_.\[\]*]+\s*)?:=\s*(.*)$`)

func clauseKeyword(s string) bool {
	for _, k := range []string{"property ", "requires ", "ensures ", "defines ", "modifies ", "no_panic", "may_panic", "own_bounds", "wraps", "rethrows", "panics_with ", "panics ", "decreases ", "loop#", "at ", "let ", "ghost ", "trusted", "inline", "noinline", "pure", "witness ", "assumes ", "dispatch ", "callback ", "reads_init "} {
		if strings.HasPrefix(s, k) {
			return true
		}
	}
	return false
}

func LoadContracts(root string, pkgDirs map[string]string) (*ContractSet, error) {
	cs := &ContractSet{Funcs: map[string]*Contract{}, Preds: map[string]*PredDecl{}}
	for pkgPath, dir := range pkgDirs {
		matches, _ := filepath.Glob(filepath.Join(dir, "verif_contracts*.go"))
		for _, f := range matches {
			if err := cs.parseFile(pkgPath, f); err != nil {
				return nil, err
			}
			cs.Files = append(cs.Files, f)
		}
	}
	return cs, nil
}

func (cs *ContractSet) parseFile(pkgPath, file string) error {
	fh, err := os.Open(file)
	if err != nil {
		return err
	}
	defer fh.Close()
	sc := bufio.NewScanner(fh)
	sc.Buffer(make([]byte, 1<<20), 1<<20)
	type rawLine struct {
		text string
		line int
	}
	var lines []rawLine
	ln := 0
	for sc.Scan() {
		ln++
		t := strings.TrimSpace(sc.Text())
		var body string
		switch {
		case strings.HasPrefix(t, "//@"):
			body = t[3:]
		case strings.HasPrefix(t, "// @"):
			body = t[4:]
		default:
			continue
		}
		// strip trailing spec comment  " //- ..."
		if i := strings.Index(body, " //-"); i >= 0 {
			body = body[:i]
		}
		lines = append(lines, rawLine{body, ln})
	}
	// join continuation lines: a line whose trimmed text is not a block start and not a clause keyword
	var joined []rawLine
	for _, l := range lines {
		t := strings.TrimSpace(l.text)
		if t == "" {
			continue
		}
		isStart := strings.HasPrefix(t, "lemma ") || strings.HasPrefix(t, "ghostfield ") || strings.HasPrefix(t, "func ") || strings.HasPrefix(t, "pred ") || strings.HasPrefix(t, "fun ") || strings.HasPrefix(t, "end")
		if !isStart && !clauseKeyword(t) && len(joined) > 0 {
			joined[len(joined)-1].text += " " + t
			continue
		}
		joined = append(joined, rawLine{t, l.line})
	}
	var cur *Contract
	var curLemma *LemmaDecl
	for _, l := range joined {
		t := l.text
		fail := func(err error) error { return fmt.Errorf("%s:%d: %v", file, l.line, err) }
		mk := func(src string) (Clause, error) {
			e, err := ParseSpec(src)
			if err != nil {
				return Clause{}, fail(err)
			}
			return Clause{E: e, Src: src, File: file, Line: l.line}, nil
		}
		if strings.HasPrefix(t, "lemma ") {
			m := reLemma.FindStringSubmatch(t)
			if m == nil {
				return fail(fmt.Errorf("bad lemma declaration: %s", t))
			}
			var params []QVar
			if strings.TrimSpace(m[2]) != "" {
				for _, p := range strings.Split(m[2], ",") {
					sp := strings.SplitN(strings.TrimSpace(p), " ", 2)
					if len(sp) != 2 {
						return fail(fmt.Errorf("lemma parameter needs a type: %q", p))
					}
					params = append(params, QVar{Name: sp[0], Type: strings.TrimSpace(sp[1])})
				}
			}
			curLemma = &LemmaDecl{PkgPath: pkgPath, Name: m[1], Params: params, File: file, Line: l.line}
			cs.Lemmas = append(cs.Lemmas, curLemma)
			cur = nil
			continue
		}
		if curLemma != nil && cur == nil && !strings.HasPrefix(t, "func ") && !strings.HasPrefix(t, "pred ") && !strings.HasPrefix(t, "fun ") && !strings.HasPrefix(t, "ghostfield ") {
			switch {
			case strings.HasPrefix(t, "property "):
				curLemma.Props = append(curLemma.Props, strings.Fields(t[9:])...)
			case strings.HasPrefix(t, "requires "):
				c, err := mk(t[9:])
				if err != nil {
					return err
				}
				curLemma.Requires = append(curLemma.Requires, c)
			case strings.HasPrefix(t, "ensures "):
				c, err := mk(t[8:])
				if err != nil {
					return err
				}
				curLemma.Ensures = append(curLemma.Ensures, c)
			default:
				return fail(fmt.Errorf("unknown lemma clause: %s", t))
			}
			continue
		}
		curLemma = nil
		switch {
		case strings.HasPrefix(t, "func "):
			key := strings.TrimSpace(t[5:])
			cur = &Contract{PkgPath: pkgPath, Key: key, Loops: map[int]*LoopSpec{}, Hints: map[string][]Hint{}, File: file, Line: l.line, Dispatch: map[string][]string{}}
			id := pkgPath + "::" + key
			if _, dup := cs.Funcs[id]; dup {
				return fail(fmt.Errorf("duplicate contract for %s", id))
			}
			cs.Funcs[id] = cur
		case strings.HasPrefix(t, "ghostfield "):
			// ghostfield Type.$name <sort>
			rest := strings.TrimSpace(t[11:])
			sp := strings.SplitN(rest, " ", 2)
			dot := strings.Index(sp[0], ".$")
			if len(sp) != 2 || dot < 0 {
				return fail(fmt.Errorf("bad ghostfield declaration: %s", t))
			}
			cs.GhostFields = append(cs.GhostFields, &GhostField{PkgPath: pkgPath, Struct: sp[0][:dot], Field: sp[0][dot+1:], Sort: strings.TrimSpace(sp[1])})
			cur = nil
		case strings.HasPrefix(t, "pred "), strings.HasPrefix(t, "fun "):
			m := rePred.FindStringSubmatch(t)
			if m == nil {
				return fail(fmt.Errorf("bad pred declaration: %s", t))
			}
			var params []QVar
			if strings.TrimSpace(m[2]) != "" {
				for _, p := range strings.Split(m[2], ",") {
					p = strings.TrimSpace(p)
					sp := strings.SplitN(p, " ", 2)
					if len(sp) != 2 {
						return fail(fmt.Errorf("pred parameter needs a type: %q", p))
					}
					params = append(params, QVar{Name: sp[0], Type: strings.TrimSpace(sp[1])})
				}
			}
			body, err := ParseSpec(m[3])
			if err != nil {
				return fail(err)
			}
			cs.Preds[pkgPath+"::"+m[1]] = &PredDecl{PkgPath: pkgPath, Name: m[1], Params: params, Body: body, Src: m[3], File: file, Line: l.line}
			cur = nil
		case cur == nil:
			return fail(fmt.Errorf("clause outside a func block: %s", t))
		case strings.HasPrefix(t, "property "):
			cur.Props = append(cur.Props, strings.Fields(t[9:])...)
		case strings.HasPrefix(t, "requires "):
			c, err := mk(t[9:])
			if err != nil {
				return err
			}
			cur.Requires = append(cur.Requires, c)
		case strings.HasPrefix(t, "decreases "):
			for _, part := range splitTop(t[10:]) {
				c, err := mk(part)
				if err != nil {
					return err
				}
				cur.Decreases = append(cur.Decreases, c)
			}
		case strings.HasPrefix(t, "ensures "):
			rest := strings.TrimSpace(t[8:])
			var only []string
			for strings.HasPrefix(rest, "@") {
				sp := strings.SplitN(rest, " ", 2)
				if len(sp) != 2 {
					return fail(fmt.Errorf("bad ensures"))
				}
				only = append(only, sp[0][1:])
				rest = strings.TrimSpace(sp[1])
			}
			c, err := mk(rest)
			if err != nil {
				return err
			}
			c.Only = only
			cur.Ensures = append(cur.Ensures, c)
		case strings.HasPrefix(t, "defines "):
			c, err := mk(strings.TrimSpace(t[8:]))
			if err != nil {
				return err
			}
			c.Defines = true
			cur.Ensures = append(cur.Ensures, c)
			cur.Assumes = append(cur.Assumes, "definitional postcondition (the spec functions in it are DEFINED as this function's results; relies on the function being a deterministic function of its arguments' content): "+strings.TrimSpace(t[8:]))
		case strings.HasPrefix(t, "modifies "):
			for _, part := range splitTop(t[9:]) {
				c, err := mk(part)
				if err != nil {
					return err
				}
				cur.Modifies = append(cur.Modifies, c)
			}
		case t == "no_panic":
			cur.NoPanic = true
		case t == "rethrows":
			cur.Rethrows = true
		case t == "wraps":
			cur.Wraps = true
		case t == "own_bounds":
			cur.OwnBounds = true
		case t == "may_panic":
			cur.MayPanic = true
			cur.Assumes = append(cur.Assumes, "partial correctness: run-time panics (nil dereference, index, slice bounds, conversion, division) are not excluded here; the postconditions are proved for every normal return")
		case strings.HasPrefix(t, "panics_with "):
			c, err := mk(t[12:])
			if err != nil {
				return err
			}
			cur.PanicsWith = append(cur.PanicsWith, c)
		case strings.HasPrefix(t, "panics "):
			rest := strings.TrimSpace(t[7:])
			if !strings.HasPrefix(rest, "when ") {
				return fail(fmt.Errorf("expected 'panics when <cond> [with <code>]'"))
			}
			rest = rest[5:]
			code := ""
			if i := strings.LastIndex(rest, " with "); i >= 0 {
				code = strings.TrimSpace(rest[i+6:])
				rest = rest[:i]
			}
			c, err := mk(rest)
			if err != nil {
				return err
			}
			cur.Panics = append(cur.Panics, PanicSpec{When: c, Code: code})
		case strings.HasPrefix(t, "loop#"):
			m := reClauseLoop.FindStringSubmatch(t)
			if m == nil {
				return fail(fmt.Errorf("bad loop clause: %s", t))
			}
			k, _ := strconv.Atoi(m[1])
			ls := cur.Loops[k]
			if ls == nil {
				ls = &LoopSpec{}
				cur.Loops[k] = ls
			}
			switch m[2] {
			case "invariant":
				c, err := mk(m[3])
				if err != nil {
					return err
				}
				ls.Invariants = append(ls.Invariants, c)
			case "decreases":
				c, err := mk(m[3])
				if err != nil {
					return err
				}
				ls.Decreases = append(ls.Decreases, c)
			case "use", "assert":
				for _, part := range splitTopSemi(m[3]) {
					e, err := ParseSpec(part)
					if err != nil {
						return fail(err)
					}
					ls.Hints = append(ls.Hints, Hint{Kind: m[2], E: e, Src: part, Line: l.line})
				}
			}
		case strings.HasPrefix(t, "at "):
			m := reAt.FindStringSubmatch(t)
			if m == nil {
				return fail(fmt.Errorf("bad at clause: %s", t))
			}
			if m[2] == "set" {
				sp := strings.SplitN(m[3], " = ", 2)
				if len(sp) != 2 {
					return fail(fmt.Errorf("bad set: %s", t))
				}
				le, err := ParseSpec(strings.TrimSpace(sp[0]))
				if err != nil {
					return fail(err)
				}
				e, err := ParseSpec(strings.TrimSpace(sp[1]))
				if err != nil {
					return fail(err)
				}
				cur.Hints[m[1]] = append(cur.Hints[m[1]], Hint{Kind: "set", L: le, E: e, Src: m[3], Line: l.line})
				continue
			}
			if m[2] == "bind" {
				// bind name = expr; name2 = expr2   (ghost names for later hints of the same function)
				for _, part := range splitTopSemi(m[3]) {
					sp := strings.SplitN(part, " = ", 2)
					if len(sp) != 2 {
						return fail(fmt.Errorf("bad bind: %s", part))
					}
					e, err := ParseSpec(strings.TrimSpace(sp[1]))
					if err != nil {
						return fail(err)
					}
					cur.Hints[m[1]] = append(cur.Hints[m[1]], Hint{Kind: "bind", Bind: strings.TrimSpace(sp[0]), E: e, Src: part, Line: l.line})
				}
				continue
			}
			if m[2] == "setdef" {
				// setdef x.$f p :: forall k T :: p[k] == body
				sp := strings.SplitN(m[3], "::", 2)
				if len(sp) != 2 {
					return fail(fmt.Errorf("bad setdef: %s", t))
				}
				hd := strings.Fields(sp[0])
				if len(hd) != 2 {
					return fail(fmt.Errorf("bad setdef head: %s", sp[0]))
				}
				le, err := ParseSpec(hd[0])
				if err != nil {
					return fail(err)
				}
				e, err := ParseSpec(strings.TrimSpace(sp[1]))
				if err != nil {
					return fail(err)
				}
				cur.Hints[m[1]] = append(cur.Hints[m[1]], Hint{Kind: "setdef", L: le, Bind: hd[1], E: e, Src: m[3], Line: l.line})
				continue
			}
			for _, part := range splitTopSemi(m[3]) {
				e, err := ParseSpec(part)
				if err != nil {
					return fail(err)
				}
				cur.Hints[m[1]] = append(cur.Hints[m[1]], Hint{Kind: m[2], E: e, Src: part, Line: l.line})
				if m[2] == "assume" {
					cur.Assumes = append(cur.Assumes, "assumed without proof at "+m[1]+": "+strings.TrimSpace(part))
				}
			}
		case strings.HasPrefix(t, "let "):
			sp := strings.SplitN(t[4:], ":=", 2)
			if len(sp) != 2 {
				return fail(fmt.Errorf("bad let"))
			}
			e, err := ParseSpec(strings.TrimSpace(sp[1]))
			if err != nil {
				return fail(err)
			}
			cur.Lets = append(cur.Lets, LetDecl{Name: strings.TrimSpace(sp[0]), E: e, Src: sp[1]})
			cur.Decls = append(cur.Decls, fmt.Sprintf("let:%d", len(cur.Lets)-1))
		case strings.HasPrefix(t, "ghost "):
			rest := strings.TrimSpace(t[6:])
			var def Expr
			defSrc := ""
			if i := strings.Index(rest, ":="); i >= 0 {
				defSrc = strings.TrimSpace(rest[i+2:])
				e, err := ParseSpec(defSrc)
				if err != nil {
					return fail(err)
				}
				def = e
				rest = strings.TrimSpace(rest[:i])
			}
			sp := strings.SplitN(rest, " ", 2)
			if len(sp) != 2 {
				return fail(fmt.Errorf("ghost needs name and type"))
			}
			cur.Ghosts = append(cur.Ghosts, GhostDecl{Name: sp[0], Type: strings.TrimSpace(sp[1]), Def: def, Src: defSrc})
			cur.Decls = append(cur.Decls, fmt.Sprintf("ghost:%d", len(cur.Ghosts)-1))
		case t == "trusted" || strings.HasPrefix(t, "trusted "):
			cur.Trusted = true
			if len(t) > 8 {
				cur.Assumes = append(cur.Assumes, strings.TrimSpace(t[8:]))
			}
		case t == "inline":
			cur.Inline = true
		case t == "noinline":
			cur.NoInline = true
		case t == "pure":
			cur.Pure = true
		case strings.HasPrefix(t, "witness "):
			cur.Witness = append(cur.Witness, strings.TrimSpace(t[8:]))
		case strings.HasPrefix(t, "assumes "):
			cur.Assumes = append(cur.Assumes, strings.TrimSpace(t[8:]))
		case strings.HasPrefix(t, "reads_init "):
			cur.ReadsInit = append(cur.ReadsInit, strings.Fields(t[11:])...)
		case strings.HasPrefix(t, "callback "):
			fs := strings.Fields(t[9:])
			if len(fs) != 2 || fs[1] != "pure" {
				return fail(fmt.Errorf("expected 'callback <param> pure'"))
			}
			cur.PureCallbacks = append(cur.PureCallbacks, fs[0])
			cur.Assumes = append(cur.Assumes, "callback parameter "+fs[0]+" is a pure, total, deterministic function of its arguments (no heap effects, no panic)")
		case strings.HasPrefix(t, "dispatch "):
			sp := strings.SplitN(t[9:], ":", 2)
			if len(sp) != 2 {
				return fail(fmt.Errorf("bad dispatch"))
			}
			var names []string
			for _, n := range strings.Split(sp[1], ",") {
				names = append(names, strings.TrimSpace(n))
			}
			cur.Dispatch[strings.TrimSpace(sp[0])] = names
		default:
			return fail(fmt.Errorf("unknown clause: %s", t))
		}
	}
	return nil
}

// splitTop splits on commas that are not nested in brackets.
func splitTop(s string) []string { return splitTopOn(s, ',') }

func splitTopSemi(s string) []string { return splitTopOn(s, ';') }

func splitTopOn(s string, sep byte) []string {
	var out []string
	depth := 0
	start := 0
	inStr := false
	for i := 0; i < len(s); i++ {
		c := s[i]
		if inStr {
			if c == '\\' {
				i++
			} else if c == '"' {
				inStr = false
			}
			continue
		}
		switch c {
		case '"':
			inStr = true
		case '(', '[', '{':
			depth++
		case ')', ']', '}':
			depth--
		default:
			if c == sep && depth == 0 {
				out = append(out, strings.TrimSpace(s[start:i]))
				start = i + 1
			}
		}
	}
	if t := strings.TrimSpace(s[start:]); t != "" {
		out = append(out, t)
	}
	return out
}
