package main

// Calls: builtins, contract calls (modular), inlining of small in-module callees, assumed
// contracts of external functions, havoc for everything else.

import (
	"fmt"
	"go/token"
	"go/types"
	"os"
	"sort"
	"strings"

	"golang.org/x/tools/go/ssa"
)

const maxInlineDepth = 12

func (f *Frame) call(ins ssa.Value, cc *ssa.CallCommon, pc string, st *State) string {
	var args []Val
	for _, a := range cc.Args {
		args = append(args, f.val(a))
	}
	var fv Val
	if _, ok := cc.Value.(*ssa.Builtin); !ok && (cc.IsInvoke() || cc.StaticCallee() == nil) {
		fv = f.val(cc.Value)
	}
	var bindings []Val
	if mc, ok := cc.Value.(*ssa.MakeClosure); ok {
		for _, b := range mc.Bindings {
			bindings = append(bindings, f.val(b))
		}
	}
	return f.callPre(ins, cc, args, fv, bindings, pc, st)
}

// callPre performs a call whose operands have already been evaluated (also used for deferred calls).
func (f *Frame) callPre(ins ssa.Value, cc *ssa.CallCommon, args []Val, fv Val, bindings []Val, pc string, st *State) string {
	setResult := func(r Val) {
		if ins != nil {
			f.vals[ins] = r
		}
	}
	if b, ok := cc.Value.(*ssa.Builtin); ok {
		r := f.builtin(b, cc, args, pc, st, ins)
		setResult(r)
		return pc
	}
	if cc.IsInvoke() {
		r, npc := f.invoke(cc, fv, args, pc, st, ins)
		setResult(r)
		return npc
	}
	if callee := cc.StaticCallee(); callee != nil {
		r, npc := f.callStatic(callee, bindings, args, pc, st, ins)
		setResult(r)
		return npc
	}
	// dynamic call through a function value
	r, npc := f.callDynamic(fv, cc, args, pc, st, ins)
	setResult(r)
	return npc
}

func posOf(ins ssa.Value, f *Frame) token.Pos {
	if ins != nil && ins.Pos().IsValid() {
		return ins.Pos()
	}
	return f.fn.Pos()
}

// ---------------------------------------------------------------------------------------------
// builtins

func (f *Frame) builtin(b *ssa.Builtin, cc *ssa.CallCommon, args []Val, pc string, st *State, ins ssa.Value) Val {
	vc := f.vc
	pos := posOf(ins, f)
	switch b.Name() {
	case "len", "cap":
		x := args[0]
		var t string
		switch u := types.Unalias(x.Typ).Underlying().(type) {
		case *types.Slice:
			t = fmt.Sprintf("(%s %s)", b.Name(), x.T)
		case *types.Basic:
			t = fmt.Sprintf("(slen %s)", x.T)
		case *types.Map:
			_, _, card := f.mapComps(u, st)
			t = fmt.Sprintf("(ite (= %s 0) 0 (select %s %s))", x.T, card, x.T)
		case *types.Array:
			t = fmt.Sprint(u.Len())
		case *types.Pointer:
			if at, ok := u.Elem().Underlying().(*types.Array); ok {
				t = fmt.Sprint(at.Len())
			} else {
				unsup("len of %s", x.Typ)
			}
		default:
			unsup("len of %s", x.Typ)
		}
		n := vc.define(f.label+"len", "Int", t)
		vc.assert(fmt.Sprintf("(>= %s 0)", n))
		return Val{T: n, Typ: types.Typ[types.Int]}
	case "append":
		return f.appendBuiltin(cc, args, pc, st, pos)
	case "copy":
		return f.copyBuiltin(args, pc, st, pos)
	case "delete":
		m := args[0]
		mt := types.Unalias(m.Typ).Underlying().(*types.Map)
		k := f.termOf(args[1])
		dom, _, card := f.mapComps(mt, st)
		f.noteCompSt(st, mapDomComp(mt))
		f.noteCompSt(st, mapCardComp(mt))
		// delete on nil map is a no-op
		st.heap[mapCardComp(mt)] = vc.define("h", "(Array Int Int)", fmt.Sprintf("(ite (= %s 0) %s (store %s %s (ite (select (select %s %s) %s) (- (select %s %s) 1) (select %s %s))))", m.T, card, card, m.T, dom, m.T, k, card, m.T, card, m.T))
		st.heap[mapDomComp(mt)] = vc.define("h", vc.compSorts[mapDomComp(mt)], fmt.Sprintf("(ite (= %s 0) %s (store %s %s (store (select %s %s) %s false)))", m.T, dom, dom, m.T, dom, m.T, k))
		return Val{}
	case "ssa:wrapnilchk":
		return args[0]
	case "ssa:deferstack":
		return Val{T: "0", Typ: types.Typ[types.Int]}
	case "recover":
		if f.root().con != nil && f.root().con.MayPanic {
			unsup("may_panic contract on a function that can recover from panics")
		}
		if f.parent == nil && f.con != nil && f.con.Rethrows {
			// verifying a panic handler on its own: recover() yields an arbitrary value; every normal return must
			// come with that value being nil (checkReturn). recover() in a callee of the handler yields nil (Go semantics).
			if vc.recVal == "" {
				vc.recVal = vc.freshConst("recovered", "Iface")
				vc.recCalled = "false"
			}
			vc.recCalled = or(vc.recCalled, pc)
			return Val{T: vc.recVal, Typ: types.NewInterfaceType(nil, nil)}
		}
		// effective only when called directly by a deferred function while its parent unwinds a panic
		if f.parent != nil && f.parent.unwinding != nil {
			u := f.parent.unwinding
			u.recovered = or(u.recovered, pc)
			return Val{T: vc.define("recovered", "Iface", fmt.Sprintf("(ite %s %s nil_iface)", u.active, u.val)), Typ: types.NewInterfaceType(nil, nil)}
		}
		return Val{T: "nil_iface", Typ: types.NewInterfaceType(nil, nil)}
	case "print", "println":
		return Val{}
	case "min", "max":
		op := "<="
		if b.Name() == "max" {
			op = ">="
		}
		t := args[0].T
		for _, a := range args[1:] {
			t = fmt.Sprintf("(ite (%s %s %s) %s %s)", op, t, a.T, t, a.T)
		}
		return Val{T: vc.define("mm", "Int", t), Typ: args[0].Typ}
	}
	unsup("builtin %s", b.Name())
	return Val{}
}

func (f *Frame) appendBuiltin(cc *ssa.CallCommon, args []Val, pc string, st *State, pos token.Pos) Val {
	vc := f.vc
	s := args[0]
	t := args[1]
	sl, ok := types.Unalias(s.Typ).Underlying().(*types.Slice)
	if !ok {
		unsup("append to %s", s.Typ)
	}
	et := sl.Elem()
	es := vc.sortOf(et)
	cn := elemComp(et)
	E := vc.comp(st, cn, vc.elemCompSort(et), et)
	f.noteCompSt(st, cn)
	var tl, tarr, toff string // appended part
	if bt, isStr := types.Unalias(t.Typ).Underlying().(*types.Basic); isStr && bt.Info()&types.IsString != 0 {
		// append([]byte, string...)
		tl = fmt.Sprintf("(slen %s)", t.T)
	} else {
		tl = fmt.Sprintf("(len %s)", t.T)
		tarr = fmt.Sprintf("(select %s (arr %s))", E, t.T)
		toff = fmt.Sprintf("(off %s)", t.T)
	}
	n := vc.define("app.n", "Int", tl)
	newLen := vc.define("app.len", "Int", fmt.Sprintf("(+ (len %s) %s)", s.T, n))
	fits := vc.define("app.fits", "Bool", fmt.Sprintf("(<= %s (cap %s))", newLen, s.T))
	// in-place version: elements written behind len
	nid := f.newRef(st, "append")
	ncap := vc.freshConst("app.cap", "Int")
	vc.assert(fmt.Sprintf("(>= %s %s)", ncap, newLen))
	vc.assert(fmt.Sprintf("(<= (* %s %d) 281474976710656)", ncap, elemSize(et)))
	srcArr := vc.define("app.src", "(Array Int "+es+")", fmt.Sprintf("(select %s (arr %s))", E, s.T))
	res := vc.define("app.res", "Slice", fmt.Sprintf("(ite %s (mk_slice (arr %s) (off %s) %s (cap %s)) (mk_slice %s 0 %s %s))", fits, s.T, s.T, newLen, s.T, nid, newLen, ncap))
	// new content of the target array
	dst := vc.freshConst("app.dst", "(Array Int "+es+")")
	elemAt := func(j string) string {
		if tarr == "" {
			return fmt.Sprintf("(sat %s %s)", t.T, j)
		}
		return fmt.Sprintf("(select %s (+ %s %s))", tarr, toff, j)
	}
	arrSort := "(Array Int " + es + ")"
	if t.Lit != nil {
		// literal elements (variadic call append(s, a, b)): no quantifier on the in-place path
		inpl := srcArr
		for k, e := range t.Lit {
			inpl = fmt.Sprintf("(store %s (+ (off %s) (len %s) %d) %s)", inpl, s.T, s.T, k, e)
		}
		pre := vc.freshConst("app.pre", arrSort)
		vc.assert(fmt.Sprintf("(forall ((j Int)) (! (=> (and (<= 0 j) (< j (len %s))) (= (select %s j) (select %s (+ (off %s) j)))) :pattern ((select %s j))))", s.T, pre, srcArr, s.T, pre))
		fr := pre
		for k, e := range t.Lit {
			fr = fmt.Sprintf("(store %s (+ (len %s) %d) %s)", fr, s.T, k, e)
		}
		vc.assert(fmt.Sprintf("(= %s (ite %s %s %s))", dst, fits, inpl, fr))
	} else {
		// in place: dst = src with [off+len, off+len+n) overwritten ; fresh: dst[j] = src[off+j] for j<len, dst[len+j] = t[j]
		vc.assert(fmt.Sprintf("(forall ((j Int)) (! (= (select %s j) (ite %s (ite (and (<= (+ (off %s) (len %s)) j) (< j (+ (off %s) %s))) %s (select %s j)) (ite (and (<= 0 j) (< j (len %s))) (select %s (+ (off %s) j)) (ite (and (<= (len %s) j) (< j %s)) %s %s)))) :pattern ((select %s j))))",
			dst, fits,
			s.T, s.T, s.T, newLen, elemAt(fmt.Sprintf("(- j (+ (off %s) (len %s)))", s.T, s.T)), srcArr,
			s.T, srcArr, s.T,
			s.T, newLen, elemAt(fmt.Sprintf("(- j (len %s))", s.T)), vc.zero(et),
			dst))
	}
	st.heap[cn] = vc.define("h", vc.compSorts[cn], fmt.Sprintf("(store %s (arr %s) %s)", E, res, dst))
	// a nil/empty append of nothing keeps nil: Go returns the original slice when n == 0 and it fits (always fits)
	return Val{T: res, Typ: s.Typ}
}

func (f *Frame) copyBuiltin(args []Val, pc string, st *State, pos token.Pos) Val {
	vc := f.vc
	d, s := args[0], args[1]
	sl := types.Unalias(d.Typ).Underlying().(*types.Slice)
	et := sl.Elem()
	es := vc.sortOf(et)
	cn := elemComp(et)
	E := vc.comp(st, cn, vc.elemCompSort(et), et)
	f.noteCompSt(st, cn)
	var sLen string
	var elemAt func(j string) string
	if bt, isStr := types.Unalias(s.Typ).Underlying().(*types.Basic); isStr && bt.Info()&types.IsString != 0 {
		sLen = fmt.Sprintf("(slen %s)", s.T)
		elemAt = func(j string) string { return fmt.Sprintf("(sat %s %s)", s.T, j) }
	} else {
		sLen = fmt.Sprintf("(len %s)", s.T)
		src := vc.define("cp.src", "(Array Int "+es+")", fmt.Sprintf("(select %s (arr %s))", E, s.T))
		elemAt = func(j string) string { return fmt.Sprintf("(select %s (+ (off %s) %s))", src, s.T, j) }
	}
	n := vc.define("cp.n", "Int", fmt.Sprintf("(ite (<= (len %s) %s) (len %s) %s)", d.T, sLen, d.T, sLen))
	dst := vc.freshConst("cp.dst", "(Array Int "+es+")")
	old := vc.define("cp.old", "(Array Int "+es+")", fmt.Sprintf("(select %s (arr %s))", E, d.T))
	vc.assert(fmt.Sprintf("(forall ((j Int)) (! (= (select %s j) (ite (and (<= (off %s) j) (< j (+ (off %s) %s))) %s (select %s j))) :pattern ((select %s j))))",
		dst, d.T, d.T, n, elemAt(fmt.Sprintf("(- j (off %s))", d.T)), old, dst))
	st.heap[cn] = vc.define("h", vc.compSorts[cn], fmt.Sprintf("(store %s (arr %s) %s)", E, d.T, dst))
	return Val{T: n, Typ: types.Typ[types.Int]}
}

// ---------------------------------------------------------------------------------------------
// static calls

func (f *Frame) inStack(fn *ssa.Function) bool {
	for _, s := range f.stack {
		if s == fn {
			return true
		}
	}
	return false
}

func (f *Frame) callStatic(callee *ssa.Function, bindings []Val, args []Val, pc string, st *State, ins ssa.Value) (Val, string) {
	if rc := f.root().con; rc != nil && !f.dry && (len(rc.Hints["call:"+callee.Name()]) > 0 || len(rc.Hints["call:"+callee.Name()+".after"]) > 0) {
		// hints anchored at calls (also inside inlined callees; names resolve in the frame of the call);
		// the arguments are visible as arg0, arg1, ... (receiver first)
		for i, a := range args {
			av := a
			if av.Loc != nil && (av.Loc.Kind == LocRef || av.Loc.Kind == LocArray) {
				av = Val{T: f.ptrTerm(av), Typ: av.Typ}
			}
			if av.Loc == nil {
				if i < len(callee.Params) {
					av.Typ = callee.Params[i].Type()
				}
				f.spec[fmt.Sprintf("arg%d", i)] = av
			}
		}
		defer func() {
			for i := range args {
				delete(f.spec, fmt.Sprintf("arg%d", i))
			}
		}()
		if len(rc.Hints["call:"+callee.Name()]) > 0 {
			f.vc.usedAnchors["call:"+callee.Name()] = true
		}
		if len(rc.Hints["call:"+callee.Name()+".after"]) > 0 {
			f.vc.usedAnchors["call:"+callee.Name()+".after"] = true
		}
		for _, h := range rc.Hints["call:"+callee.Name()] {
			f.applyHintCon(rc, h, pc, st, "call:"+callee.Name())
		}
		r, npc := f.callStatic2(callee, bindings, args, pc, st, ins)
		if ins != nil {
			f.vals[ins] = r
		}
		// results of the call are visible to .after hints as ret0, ret1, ...
		if len(r.Tuple) > 0 {
			for i, rv := range r.Tuple {
				f.spec[fmt.Sprintf("ret%d", i)] = rv
			}
		} else if r.T != "" {
			f.spec["ret0"] = r
		}
		for _, h := range rc.Hints["call:"+callee.Name()+".after"] {
			f.applyHintCon(rc, h, npc, st, "call:"+callee.Name()+".after")
		}
		for i := 0; i < 4; i++ {
			delete(f.spec, fmt.Sprintf("ret%d", i))
		}
		return r, npc
	}
	return f.callStatic2(callee, bindings, args, pc, st, ins)
}

func (f *Frame) callStatic2(callee *ssa.Function, bindings []Val, args []Val, pc string, st *State, ins ssa.Value) (Val, string) {
	vc := f.vc
	prog := vc.prog
	name := callee.String()
	if h, ok := intrinsics[name]; ok {
		r, npc := h(f, callee, args, pc, st, ins)
		vc.assumed[name] = true
		return r, npc
	}
	// generic instances: look up intrinsic by origin
	if callee.Origin() != nil {
		if h, ok := intrinsics[callee.Origin().String()]; ok {
			r, npc := h(f, callee, args, pc, st, ins)
			vc.assumed[callee.Origin().String()] = true
			return r, npc
		}
	}
	con := prog.contractFor(callee)
	if con != nil && !con.Inline && !(f.top && callee == f.fn && false) {
		return f.callContract(callee, con, args, pc, st, ins)
	}
	inModule := callee.Pkg != nil && strings.HasPrefix(callee.Pkg.Pkg.Path(), modPath) || (callee.Pkg == nil && callee.Origin() != nil && callee.Origin().Pkg != nil && strings.HasPrefix(callee.Origin().Pkg.Pkg.Path(), modPath))
	if callee.Synthetic != "" && callee.Blocks != nil {
		inModule = true // wrappers, bound-method thunks, generic instances
	}
	if inModule && len(callee.Blocks) > 0 && f.depth < maxInlineDepth && !f.inStack(callee) {
		return f.inline(callee, con, args, bindings, pc, st, ins)
	}
	return f.havocCall(callee, args, pc, st, ins, "no contract and not inlinable")
}

// inline executes the callee body in the caller's context.
func (f *Frame) inline(callee *ssa.Function, con *Contract, args, bindings []Val, pc string, st *State, ins ssa.Value) (Val, string) {
	vc := f.vc
	vc.inlined[shortFn(callee)] = true
	sub := &Frame{vc: vc, fn: callee, con: con, vals: map[ssa.Value]Val{}, params: map[string]Val{}, depth: f.depth + 1,
		dry: f.dry, rec: f.rec, stack: append(append([]*ssa.Function{}, f.stack...), callee), spec: map[string]Val{},
		edgeCnd: map[*ssa.BasicBlock]map[*ssa.BasicBlock]string{}, parent: f, thinCalls: f.thinCalls}
	sub.label = fmt.Sprintf("%s%s>", f.label, vc.fresh("i"))
	if len(args) != len(callee.Params) {
		unsup("argument count mismatch calling %s", shortFn(callee))
	}
	for i, p := range callee.Params {
		a := args[i]
		a.Typ = p.Type()
		sub.vals[p] = a
		sub.params[p.Name()] = a
	}
	for i, fv := range callee.FreeVars {
		if i < len(bindings) {
			b := bindings[i]
			b.Typ = fv.Type()
			sub.vals[fv] = b
		} else {
			unsup("free variable %s of %s unbound at call", fv.Name(), shortFn(callee))
		}
	}
	sub.entry = st.clone()
	sub.indexReturns()
	sub.analyseLoops()
	order := topoOrder(callee)
	in := map[*ssa.BasicBlock][]edge{callee.Blocks[0]: {{nil, pc, st}}}
	// a callee that leaves the supported subset is replaced by the weakest contract (arbitrary effects, may panic):
	// sound, and it can only make proofs of the caller fail
	untranslatable := ""
	func() {
		defer func() {
			if r := recover(); r != nil {
				thinRoot := f.root().con != nil && f.root().con.MayPanic
				if u, ok := r.(unsupported); ok && !strings.HasPrefix(u.why, "spec:") && (thinRoot || !strings.Contains(u.why, "has no invariant")) {
					untranslatable = u.why
					return
				}
				panic(r)
			}
		}()
		sub.run(order, in, nil, nil)
		sub.unwindPanics()
	}()
	if untranslatable != "" {
		return f.havocCall(callee, args, pc, st, ins, "outside the supported subset: "+untranslatable)
	}
	// merge normal exits
	var conds []string
	var states []*State
	var normals []Exit
	for _, e := range sub.exits {
		if e.Panic {
			f.exits = append(f.exits, e)
			continue
		}
		normals = append(normals, e)
		conds = append(conds, e.Cond)
		states = append(states, e.St)
	}
	if len(normals) == 0 {
		// callee never returns normally
		*st = *st.clone()
		return f.zeroResult(callee), "false"
	}
	npc := vc.define("pc ret "+sub.label, "Bool", or(conds...))
	merged := vc.mergeStates(conds, states)
	*st = *merged
	// results
	nres := callee.Signature.Results().Len()
	var rvals []Val
	for i := 0; i < nres; i++ {
		rt := callee.Signature.Results().At(i).Type()
		var ts []string
		for _, e := range normals {
			ts = append(ts, f.termOf(e.Results[i]))
		}
		// pointer results with symbolic location: keep if single exit
		if len(normals) == 1 && normals[0].Results[i].Loc != nil {
			rv := normals[0].Results[i]
			rv.Typ = rt
			rvals = append(rvals, rv)
			continue
		}
		rv := Val{T: vc.mergeTerms(sub.label+"res", vc.sortOf(rt), conds, ts), Typ: rt}
		if len(normals) == 1 {
			rv.Fn = normals[0].Results[i].Fn
		}
		rvals = append(rvals, rv)
	}
	switch nres {
	case 0:
		return Val{}, npc
	case 1:
		return rvals[0], npc
	}
	return Val{Tuple: rvals, Typ: callee.Signature.Results()}, npc
}

func (f *Frame) zeroResult(callee *ssa.Function) Val {
	res := callee.Signature.Results()
	mk := func(t types.Type) Val { return Val{T: f.vc.zero(t), Typ: t} }
	switch res.Len() {
	case 0:
		return Val{}
	case 1:
		return mk(res.At(0).Type())
	}
	var vs []Val
	for i := 0; i < res.Len(); i++ {
		vs = append(vs, mk(res.At(i).Type()))
	}
	return Val{Tuple: vs, Typ: res}
}

func (f *Frame) indexReturns() {
	f.retIdx = map[*ssa.Return]int{}
	var rets []*ssa.Return
	for _, b := range f.fn.Blocks {
		for _, in := range b.Instrs {
			if r, ok := in.(*ssa.Return); ok {
				rets = append(rets, r)
			}
		}
	}
	sort.SliceStable(rets, func(i, j int) bool {
		pi, pj := rets[i].Pos(), rets[j].Pos()
		if !pi.IsValid() {
			return false
		}
		if !pj.IsValid() {
			return true
		}
		return pi < pj
	})
	for i, r := range rets {
		if r.Pos().IsValid() {
			f.retIdx[r] = i + 1
		}
	}
}

// callContract: modular call — assert the precondition, havoc what the callee may write, assume the
// postcondition.
func (f *Frame) callContract(callee *ssa.Function, con *Contract, args []Val, pc string, st *State, ins ssa.Value) (Val, string) {
	vc := f.vc
	prog := vc.prog
	name := shortFn(callee)
	if con.Trusted {
		vc.assumed[name+" (trusted contract)"] = true
	}
	vars := map[string]Val{}
	for i, p := range callee.Params {
		a := args[i]
		if a.Loc != nil && a.Loc.Kind != LocRef && a.Loc.Kind != LocArray {
			// pointer to a local / field / element passed to a contracted callee: box it into a temporary
			// heap object (copy-in / copy-out)
			a = f.boxLocal(a, st, pc, posOf(ins, f))
			args[i] = a
		}
		a.Typ = p.Type()
		if a.Loc != nil {
			a = Val{T: f.ptrTerm(a), Typ: p.Type()}
		}
		vars[p.Name()] = a
	}
	// a closure called through its contract: its free variables are the values carried by the function value
	if len(f.pendingFree) == len(callee.FreeVars) {
		for i, fv := range callee.FreeVars {
			b := f.pendingFree[i]
			b.Typ = fv.Type()
			if b.Loc != nil {
				b = Val{T: f.ptrTerm(b), Typ: fv.Type()}
			}
			vars[fv.Name()] = b
		}
	} else if len(callee.FreeVars) > 0 {
		unsup("closure %s called through its contract without its captured variables", name)
	}
	f.pendingFree = nil
	pre := st.clone()
	env := &Env{vc: vc, pkg: callee.Pkg, st: st, old: pre, vars: vars, fn: callee}
	f.bindGhosts(con, env, true)
	if !f.dry {
		cidx := f.callIndex(ins)
		for i, r := range con.Requires {
			vc.oblige("pre", fmt.Sprintf("%s#pre:%s.%d@call%d", f.obFn(), name, i+1, cidx), pc, env.evalBool(r.E), f.pos(posOf(ins, f)), "precondition of "+name+": "+r.Src)
		}
	}
	// recursion: a call of the function under verification must decrease its termination measure
	if !f.dry && callee == f.stack[0] {
		root := f
		for root.parent != nil {
			root = root.parent
		}
		if len(con.Decreases) > 0 && len(root.entryMeasure) == len(con.Decreases) {
			lex := "false"
			for i := len(con.Decreases) - 1; i >= 0; i-- {
				m1 := vc.define("call measure", "Int", env.eval(con.Decreases[i].E).T)
				m0 := root.entryMeasure[i]
				lex = fmt.Sprintf("(or (and (< %s %s) (>= %s 0)) (and (= %s %s) %s))", m1, m0, m0, m1, m0, lex)
			}
			vc.oblige("dec", fmt.Sprintf("%s#dec:call:%s@call%d", f.obFn(), name, f.callIndex(ins)), pc, lex, f.pos(posOf(ins, f)), "recursive call: the termination measure of "+name+" decreases and is bounded below")
		} else {
			vc.notes = append(vc.notes, fmt.Sprintf("termination of the recursion of %s not proved (no decreases clause)", name))
		}
	}
	npc := pc
	// panics
	if !f.dry {
		if len(con.Panics) > 0 && !f.thinCalls {
			var conds []string
			for _, p := range con.Panics {
				c := env.evalBool(p.When.E)
				conds = append(conds, c)
			}
			pcond := vc.define("panics "+name, "Bool", or(conds...))
			pv := vc.freshConst("panicval", "Iface")
			for _, c := range con.PanicsWith {
				env.vars["panicvalue"] = Val{T: pv, Typ: types.NewInterfaceType(nil, nil)}
				vc.assert(env.evalBool(c.E))
				delete(env.vars, "panicvalue")
			}
			f.exits = append(f.exits, Exit{Panic: true, Cond: and(pc, pcond), St: st.clone(), PanicVal: Val{T: pv, Typ: types.NewInterfaceType(nil, nil)}, Pos: posOf(ins, f), Desc: "panic propagated from " + name})
			npc = vc.define("pc nopanic", "Bool", and(pc, not(pcond)))
		} else if !con.NoPanic && !con.Rethrows {
			mp := vc.freshConst("maypanic "+name, "Bool")
			pv := vc.freshConst("panicval", "Iface")
			for _, c := range con.PanicsWith {
				env.vars["panicvalue"] = Val{T: pv, Typ: types.NewInterfaceType(nil, nil)}
				vc.assert(env.evalBool(c.E))
				delete(env.vars, "panicvalue")
			}
			f.exits = append(f.exits, Exit{Panic: true, Cond: and(pc, mp), St: st.clone(), PanicVal: Val{T: pv, Typ: types.NewInterfaceType(nil, nil)}, Pos: posOf(ins, f), Desc: "callee " + name + " has no panic specification"})
			npc = vc.define("pc nopanic", "Bool", and(pc, not(mp)))
		}
	}
	// The callee's contract is its complete frame specification: its own frame obligations prove that
	// objects existing before the call change only where the modifies clause says so.
	modRefs := f.modTargets(con, env)
	ws := &writeRec{cells: map[*ssa.Alloc]bool{}, comps: map[string]bool{}, alloc: true}
	for k := range modRefs {
		if k == "*" {
			ws.all = true
		} else {
			ws.comps[k] = true
		}
	}
	if st.wr != nil {
		st.wr.merge(ws)
	}
	if f.dry {
		return f.freshResults(callee, st), npc
	}
	var comps []string
	if ws.all {
		for k := range vc.compSorts {
			comps = append(comps, k)
		}
	} else {
		for k := range ws.comps {
			comps = append(comps, k)
		}
	}
	sort.Strings(comps)
	_, anything := modRefs["*"]
	if containsStr(modRefs[poolBufsComp], "POOL") {
		// the callee declares modifies pool_state()
		f.poolHavoc(st)
		delete(modRefs, poolBufsComp)
		delete(modRefs, poolArraysComp)
		delete(modRefs, bufArrComp)
		delete(modRefs, poolHeldComp) // a callee puts back only what it got itself: our checked-out buffers stay ours
		if _, ok := vc.compSorts[bufSepComp]; ok {
			// ... and writes only to buffers it got itself: the ghost of our checked-out buffers is unchanged
			sep := vc.comp(st, bufSepComp, "(Array Int Int)")
			held := vc.comp(st, poolHeldComp, "(Array Int Bool)")
			sep2 := vc.freshConst("post "+bufSepComp, "(Array Int Int)")
			vc.assert(fmt.Sprintf("(forall ((b Int)) (! (=> (select %s b) (= (select %s b) (select %s b))) :pattern ((select %s b))))", held, sep2, sep, sep2))
			f.noteCompSt(st, bufSepComp)
			st.heap[bufSepComp] = sep2
		}
		delete(modRefs, bufSepComp)
		delete(modRefs, elemComp(types.Typ[types.Uint8]))
	}
	if anything {
		st.ptrCells = nil
		st.fnCells = nil
		st.fnCells = nil
	}
	var touched []string
	for _, k := range comps {
		srt, ok := vc.compSorts[k]
		if !ok {
			srt = prog.compSortHint(vc, k)
			if srt == "" {
				if len(modRefs[k]) > 0 {
					// never skip silently: the callee's ensures would then be read over the unchanged pre-state
					unsup("cannot havoc component %s named in the modifies clause of %s (sort unknown)", k, name)
				}
				continue
			}
			vc.comp(st, k, srt)
		}
		oldT := vc.comp(st, k, srt)
		if !strings.HasPrefix(srt, "(Array Int ") || anything || ws.all {
			st.heap[k] = vc.freshConst("post "+k, srt)
			touched = append(touched, k)
			continue
		}
		// Objects existing before the call change only where the callee's modifies clause says so (the
		// callee's frame obligations prove it): the post-state is the pre-state with fresh values stored at
		// exactly those references. Objects the callee allocates lie at references >= the allocation
		// counter of the call; nothing is known about them in the pre-state terms, so leaving those entries
		// as they are keeps them unconstrained, and only the callee's ensures clauses describe them.
		_, elemSort := arraySorts(srt)
		cur := oldT
		if containsStr(modRefs[k], "ALL") {
			st.heap[k] = vc.freshConst("post "+k, srt)
			touched = append(touched, k)
			continue
		}
		for i, m := range modRefs[k] {
			fv := vc.freshConst(fmt.Sprintf("post%d %s", i, k), elemSort)
			cur = fmt.Sprintf("(store %s %s %s)", cur, m, fv)
		}
		if cur != oldT {
			st.heap[k] = vc.define("h", srt, cur)
			touched = append(touched, k)
		}
	}
	comps = touched
	if ws.alloc || ws.all {
		na := vc.freshConst("alloc", "Int")
		vc.assert(fmt.Sprintf("(>= %s %s)", na, st.alloc))
		st.alloc = na
	}
	for _, k := range comps {
		if _, ok := vc.compSorts[k]; ok {
			vc.assertCompWF(st.heap[k], k, st.alloc)
		}
	}
	res := f.freshResults(callee, st)
	// bind results
	rn := callee.Signature.Results()
	bind := func(i int, v Val) {
		nm := rn.At(i).Name()
		if nm != "" && nm != "_" {
			vars[nm] = v
		}
		vars[fmt.Sprintf("result%d", i)] = v
		if rn.Len() == 1 {
			vars["result"] = v
		}
	}
	if rn.Len() == 1 {
		bind(0, res)
	} else {
		for i := 0; i < rn.Len(); i++ {
			bind(i, res.Tuple[i])
		}
	}
	post := &Env{vc: vc, pkg: callee.Pkg, st: st, old: pre, vars: vars, fn: callee}
	f.bindGhosts(con, post, false)
	for _, e := range con.Ensures {
		if f.thinCalls && len(e.Only) > 0 {
			// dynamic dispatch over many candidates: only the unscoped (representation-invariant) part of each
			// candidate's contract is assumed; assuming less is always sound and keeps the query small
			continue
		}
		vc.assume(npc, post.evalBool(e.E))
	}
	// copy-out of boxed locals
	f.unboxLocals(st, npc, posOf(ins, f))
	return res, npc
}

type boxed struct {
	loc *Loc
	ref string
}

func (f *Frame) boxLocal(a Val, st *State, pc string, pos token.Pos) Val {
	l := a.Loc
	r := f.newRef(st, "box")
	tmp := &Loc{Kind: LocRef, Ref: r, Typ: l.Typ}
	f.store(tmp, f.load(l, st, pc, pos), st, pc, pos)
	f.vc.boxedLocals = append(f.vc.boxedLocals, boxed{l, r})
	return Val{Loc: tmp, Typ: a.Typ}
}

func (f *Frame) unboxLocals(st *State, pc string, pos token.Pos) {
	for _, b := range f.vc.boxedLocals {
		tmp := &Loc{Kind: LocRef, Ref: b.ref, Typ: b.loc.Typ}
		f.store(b.loc, f.load(tmp, st, pc, pos), st, pc, pos)
	}
	f.vc.boxedLocals = nil
}

func (f *Frame) callIndex(ins ssa.Value) int {
	if f.callIdx == nil {
		f.callIdx = map[ssa.Instruction]int{}
		n := 0
		type ci struct {
			in  ssa.Instruction
			pos token.Pos
		}
		var calls []ci
		for _, b := range f.fn.Blocks {
			for _, in := range b.Instrs {
				if c, ok := in.(*ssa.Call); ok {
					calls = append(calls, ci{c, c.Pos()})
				}
			}
		}
		sort.SliceStable(calls, func(i, j int) bool { return calls[i].pos < calls[j].pos })
		for _, c := range calls {
			n++
			f.callIdx[c.in] = n
		}
	}
	if in, ok := ins.(ssa.Instruction); ok {
		return f.callIdx[in]
	}
	return 0
}

func (f *Frame) freshResults(callee *ssa.Function, st *State) Val {
	vc := f.vc
	res := callee.Signature.Results()
	mk := func(i int) Val {
		t := res.At(i).Type()
		n := vc.freshConst("r "+callee.Name(), vc.sortOf(t))
		vc.assert(vc.typed(n, t, 2))
		vc.assert(vc.refsBelow(n, t, st.alloc, 2))
		return Val{T: n, Typ: t}
	}
	switch res.Len() {
	case 0:
		return Val{}
	case 1:
		return mk(0)
	}
	var vs []Val
	for i := 0; i < res.Len(); i++ {
		vs = append(vs, mk(i))
	}
	return Val{Tuple: vs, Typ: res}
}

// modTargets evaluates the modifies clauses in the pre-state: component -> list of reference terms that
// may change. A clause `p.f` names field f of object p; `*p` all fields of p; `elems(s)` the backing array.
func (f *Frame) modTargets(con *Contract, env *Env) map[string][]string {
	out := map[string][]string{}
	for _, m := range con.Modifies {
		env.modTarget(m.E, out)
	}
	return out
}

func (f *Frame) bindGhosts(con *Contract, env *Env, pre bool) {
	for _, d := range con.Decls {
		var kind string
		var i int
		fmt.Sscanf(strings.Replace(d, ":", " ", 1), "%s %d", &kind, &i)
		switch kind {
		case "let":
			l := con.Lets[i]
			lv := env.pinContent(env.eval(l.E)) // lets denote entry-state values, including slice contents
			if len(lv.T) > 40 {
				lv.T = f.vc.define("let "+l.Name, lv.sort(f.vc), lv.T)
			}
			env.vars[l.Name] = lv
		case "ghost":
			g := con.Ghosts[i]
			if _, ok := env.vars[g.Name]; ok {
				continue
			}
			srt := env.sortOfTypeString(g.Type)
			env.vars[g.Name] = Val{T: f.vc.freshConst("ghost "+g.Name, srt), Sort: srt, Typ: env.goTypeOf(g.Type)}
			if g.Def != nil {
				f.vc.assert(env.ghostDef(g))
			}
		}
	}
}

// havocCall: unknown callee — everything reachable may change, result arbitrary; may panic.
func (f *Frame) havocCall(callee *ssa.Function, args []Val, pc string, st *State, ins ssa.Value, why string) (Val, string) {
	vc := f.vc
	name := callee.String()
	vc.havocked[name+" ("+why+")"] = true
	st.ptrCells = nil
	if st.wr != nil {
		st.wr.all = true
	}
	if f.dry {
		return f.freshResults(callee, st), pc
	}
	var comps []string
	for k := range vc.compSorts {
		comps = append(comps, k)
	}
	sort.Strings(comps)
	for _, k := range comps {
		st.heap[k] = vc.freshConst("hv "+k, vc.compSorts[k])
	}
	na := vc.freshConst("alloc", "Int")
	vc.assert(fmt.Sprintf("(>= %s %s)", na, st.alloc))
	st.alloc = na
	for _, k := range comps {
		vc.assertCompWF(st.heap[k], k, st.alloc)
	}
	mp := vc.freshConst("maypanic "+callee.Name(), "Bool")
	pv := vc.freshConst("panicval", "Iface")
	f.exits = append(f.exits, Exit{Panic: true, Cond: and(pc, mp), St: st.clone(), PanicVal: Val{T: pv}, Pos: posOf(ins, f), Desc: "unmodelled callee " + name + " may panic"})
	npc := vc.define("pc nopanic", "Bool", and(pc, not(mp)))
	return f.freshResults(callee, st), npc
}

// ---------------------------------------------------------------------------------------------
// interface method calls and dynamic calls: closed-world dispatch

func (f *Frame) invoke(cc *ssa.CallCommon, recv Val, args []Val, pc string, st *State, ins ssa.Value) (Val, string) {
	vc := f.vc
	// interface-method contract?
	// closed world: all concrete types boxed anywhere in the module that implement the interface
	iface := types.Unalias(cc.Value.Type()).Underlying().(*types.Interface)
	var cands []types.Type
	for _, ct := range vc.prog.boxedTypes() {
		if types.Implements(ct, iface) {
			cands = append(cands, ct)
		}
	}
	if len(cands) == 0 {
		unsup("invoke %s: no implementation found", cc.Method.Name())
	}
	if len(cands) > 24 {
		unsup("invoke %s.%s: %d candidate implementations (needs an interface contract)", cc.Value.Type(), cc.Method.Name(), len(cands))
	}
	f.safe(pc, "nil", posOf(ins, f), fmt.Sprintf("(not (= (iface_tag %s) 0))", recv.T), "method call on nil interface")
	var conds []string
	var states []*State
	var results []Val
	var tagConds []string
	for _, ct := range cands {
		sel := vc.prog.prog.MethodSets.MethodSet(ct).Lookup(cc.Method.Pkg(), cc.Method.Name())
		if sel == nil {
			continue
		}
		m := vc.prog.prog.MethodValue(sel)
		if m == nil {
			continue
		}
		tc := fmt.Sprintf("(= (iface_tag %s) %d)", recv.T, vc.typeTag(ct))
		tagConds = append(tagConds, tc)
		_, unbox := vc.boxFns(ct)
		rv := Val{T: vc.define("recv", vc.sortOf(ct), fmt.Sprintf("(%s %s)", unbox, recv.T)), Typ: ct}
		bst := st.clone()
		bpc := vc.define("pc disp", "Bool", and(pc, tc))
		r, npc := f.callStatic(m, nil, append([]Val{rv}, args...), bpc, bst, ins)
		conds = append(conds, npc)
		states = append(states, bst)
		results = append(results, r)
	}
	f.safe(pc, "dispatch", posOf(ins, f), or(tagConds...), "dynamic type is one of the known implementations")
	return f.mergeCallResults(cc.Signature().Results(), conds, states, results, st)
}

func (f *Frame) mergeCallResults(res *types.Tuple, conds []string, states []*State, results []Val, st *State) (Val, string) {
	vc := f.vc
	npc := vc.define("pc join", "Bool", or(conds...))
	merged := vc.mergeStates(conds, states)
	*st = *merged
	mk := func(i int) Val {
		t := res.At(i).Type()
		var ts []string
		for _, r := range results {
			v := r
			if res.Len() > 1 {
				v = r.Tuple[i]
			}
			ts = append(ts, f.termOf(v))
		}
		return Val{T: vc.mergeTerms("dres", vc.sortOf(t), conds, ts), Typ: t}
	}
	switch res.Len() {
	case 0:
		return Val{}, npc
	case 1:
		return mk(0), npc
	}
	var vs []Val
	for i := 0; i < res.Len(); i++ {
		vs = append(vs, mk(i))
	}
	return Val{Tuple: vs, Typ: res}, npc
}

func (f *Frame) callDynamic(fv Val, cc *ssa.CallCommon, args []Val, pc string, st *State, ins ssa.Value) (Val, string) {
	return f.callFnValue(fv, cc.Signature(), args, pc, st, ins)
}

// callFnValue calls a function value (closed-world dispatch, or directly when the value is known).
func (f *Frame) callFnValue(fv Val, sig *types.Signature, args []Val, pc string, st *State, ins ssa.Value) (Val, string) {
	vc := f.vc
	if fv.Fn != nil && len(fv.Fn.FreeVars) == 0 {
		return f.callStatic(fv.Fn, nil, args, pc, st, ins)
	}
	if f.isPureCallback(fv) {
		var as []string
		for _, a := range args {
			as = append(as, f.termOf(a))
		}
		res := sig.Results()
		mk := func(i int) Val {
			t := res.At(i).Type()
			n := vc.define("cbres", vc.sortOf(t), vc.pureApply(sig, i, fv.T, as))
			vc.assert(vc.typed(n, t, 2))
			vc.assert(vc.refsBelow(n, t, st.alloc, 2))
			return Val{T: n, Typ: t}
		}
		switch res.Len() {
		case 0:
			return Val{}, pc
		case 1:
			return mk(0), pc
		}
		var vs []Val
		for i := 0; i < res.Len(); i++ {
			vs = append(vs, mk(i))
		}
		return Val{Tuple: vs, Typ: res}, pc
	}
	cands := vc.prog.funcValueCandidates(sig)
	static := false
	if fn := vc.fnOfTerm[fv.T]; fn != nil {
		// the function value is statically known (a closure literal passed down the call chain)
		cands = []*ssa.Function{fn}
		static = true
	}
	if set, ok := vc.fnSetOfTerm[fv.T]; ok && !static && len(set) > 0 {
		cands = set // one of a few functions stored on the paths that lead here (the dispatch below still branches on the value)
	}
	if os.Getenv("GOVC_DEBUG") != "" {
		fmt.Fprintf(os.Stderr, "callFnValue in %s: fv=%s static=%v cands=%d\n", shortFn(f.fn), fv.T, static, len(cands))
	}
	if len(cands) == 0 {
		unsup("dynamic call in %s: no candidate functions of type %s", shortFn(f.fn), sig)
	}
	if len(cands) > 64 {
		unsup("dynamic call in %s: %d candidates", shortFn(f.fn), len(cands))
	}
	// candidates whose contracts have identical text (a function-type contract instantiated per function)
	// are handled by ONE modular call under the condition "the value is one of them"
	groups := map[string][]*ssa.Function{}
	var order []string
	thin := !static && len(cands) > 8
	if !static {
		for _, c := range cands {
			k := vc.prog.contractSignature(c, thin)
			if k == "" {
				k = "single:" + c.String()
			}
			if _, ok := groups[k]; !ok {
				order = append(order, k)
			}
			groups[k] = append(groups[k], c)
		}
	}
	if os.Getenv("GOVC_DEBUG") != "" && !static {
		fmt.Fprintf(os.Stderr, "  dispatch groups=%d thin=%v\n", len(order), thin)
		for _, k := range order {
			fmt.Fprintf(os.Stderr, "    group of %d: %s ...\n", len(groups[k]), shortFn(groups[k][0]))
		}
	}
	var conds []string
	var states []*State
	var results []Val
	var idConds []string
	var work []*ssa.Function
	var viaContract []*Contract
	var viaTargets []*ssa.Function
	grouped := map[*ssa.Function][]*ssa.Function{}
	if static {
		work = cands
	} else {
		for _, k := range order {
			g := groups[k]
			work = append(work, g[0])
			if len(g) > 1 {
				grouped[g[0]] = g
			}
		}
	}
	for _, c := range work {
		ic := fmt.Sprintf("(= (fn_id %s) %d)", fv.T, vc.fnID(c))
		if g, ok := grouped[c]; ok {
			var ids []string
			for _, m := range g {
				ids = append(ids, fmt.Sprintf("(= (fn_id %s) %d)", fv.T, vc.fnID(m)))
			}
			ic = or(ids...)
		}
		idConds = append(idConds, ic)
		bst := st.clone()
		bpc := vc.define("pc disp", "Bool", and(pc, ic))
		cargs := args
		target := c
		var bindings []Val
		if kb, ok := vc.closureBinds[fv.T]; ok && static && len(kb) == len(c.FreeVars) {
			bindings = kb
		} else if len(c.FreeVars) > 0 {
			// bound method closure: single free variable = receiver carried in the environment
			if len(c.FreeVars) == 1 && vc.sortOf(c.FreeVars[0].Type()) == "Int" {
				bindings = []Val{{T: fmt.Sprintf("(fn_env %s)", fv.T), Typ: c.FreeVars[0].Type()}}
			} else {
				for i, fvv := range c.FreeVars {
					srt := vc.sortOf(fvv.Type())
					capf := vc.declareFun(fmt.Sprintf("cap%d %s", i, srt), []string{"Int"}, srt)
					bindings = append(bindings, Val{T: fmt.Sprintf("(%s (fn_env %s))", capf, fv.T), Typ: fvv.Type()})
				}
			}
		}
		var r Val
		var npc string
		con := vc.prog.contractFor(target)
		savedThin := f.thinCalls
		if thin {
			f.thinCalls = true
		}
		defer func() { f.thinCalls = savedThin }()
		if con != nil && !con.Inline && (len(bindings) == 0 || len(bindings) == len(target.FreeVars)) {
			f.pendingFree = bindings
			r, npc = f.callContract(target, con, cargs, bpc, bst, ins)
			viaContract = append(viaContract, con)
			viaTargets = append(viaTargets, target)
		} else if f.depth < maxInlineDepth && !f.inStack(target) {
			r, npc = f.inline(target, con, cargs, bindings, bpc, bst, ins)
		} else {
			r, npc = f.havocCall(target, cargs, bpc, bst, ins, "recursive dynamic call")
		}
		conds = append(conds, npc)
		states = append(states, bst)
		results = append(results, r)
	}
	if !static {
		f.safe(pc, "dispatch", posOf(ins, f), or(idConds...), "function value is one of the functions ever stored in a value of this type (closed world)")
	}
	pre0 := st.clone()
	rv, jpc := f.mergeCallResults(sig.Results(), conds, states, results, st)
	if !static && len(viaContract) == len(work) && len(work) > 1 && !f.dry {
		f.assumeCommonEnsures(viaContract, viaTargets, args, jpc, st, pre0)
	}
	return rv, jpc
}

// assumeCommonEnsures: after a dispatch that went through the contract of every candidate, a postcondition that every
// one of these contracts states in the same words holds in the merged state as well (the merged state is one of the
// branch states). Stating it there once spares the solver the case split over the candidates.
func (f *Frame) assumeCommonEnsures(cons []*Contract, targets []*ssa.Function, args []Val, pc string, st, pre *State) {
	vc := f.vc
	t0 := targets[0]
	for _, t := range targets {
		if len(t.Params) != len(t0.Params) || t.Pkg != t0.Pkg {
			return
		}
		for i := range t.Params {
			if t.Params[i].Name() != t0.Params[i].Name() {
				return
			}
		}
	}
	count := map[string]int{}
	for _, c := range cons {
		seen := map[string]bool{}
		for _, e := range c.Ensures {
			if len(e.Only) == 0 && !seen[e.Src] {
				seen[e.Src] = true
				count[e.Src]++
			}
		}
	}
	vars := map[string]Val{}
	for i, p := range t0.Params {
		a := args[i]
		a.Typ = p.Type()
		if a.Loc != nil {
			if a.Loc.Kind != LocRef && a.Loc.Kind != LocArray {
				return
			}
			a = Val{T: f.ptrTerm(a), Typ: p.Type()}
		}
		vars[p.Name()] = a
	}
	for _, e := range cons[0].Ensures {
		if len(e.Only) > 0 || count[e.Src] != len(cons) || mentionsResult(e.E) {
			continue
		}
		func() {
			defer func() {
				if r := recover(); r != nil {
					if _, ok := r.(unsupported); !ok {
						panic(r)
					}
				}
			}()
			env := &Env{vc: vc, pkg: t0.Pkg, st: st, old: pre, vars: vars, fn: t0}
			vc.assume(pc, env.evalBool(e.E))
		}()
	}
}

func mentionsResult(x Expr) bool {
	s := x.String()
	return strings.Contains(s, "result") || strings.Contains(s, "ret0") || strings.Contains(s, "ret1")
}

// ghostDef evaluates the defining predicate of a ghost (a total definition: a prelude predicate marked
// ;@definitional that fixes every point of the ghost value, so assuming it cannot be vacuous).
func (e *Env) ghostDef(g GhostDecl) string {
	call, ok := g.Def.(ECall)
	if !ok || !e.vc.prog.prelude.defs[call.Fn] {
		unsup("ghost %s: defining predicate must be a ;@definitional prelude predicate: %s", g.Name, g.Src)
	}
	return e.evalBool(g.Def)
}

// isPureCallback: the function value is a parameter that the contract of the function under
// verification (or of an inlined callee on the stack) declares as a pure callback.
func (f *Frame) isPureCallback(fv Val) bool {
	for fr := f; fr != nil; fr = fr.parent {
		if fr.con == nil {
			continue
		}
		for _, name := range fr.con.PureCallbacks {
			if pv, ok := fr.params[name]; ok && pv.T == fv.T {
				return true
			}
		}
	}
	return false
}

func containsStr(xs []string, x string) bool {
	for _, y := range xs {
		if y == x {
			return true
		}
	}
	return false
}
