package main

// `govc check <Cxx> quick|thorough` — the registered entry point of every property check.

import (
	"encoding/json"
	"fmt"
	"os"
	"path/filepath"
	"runtime"
	"sort"
	"strconv"
	"strings"
	"time"
)

type checkResult struct {
	prop          string
	tier          string
	funcs         []*FuncResult
	obligs        []*Obligation
	lemmaObs      []*Obligation
	unmatched     []string
	staticAssumed []string
	findings      []Finding
	wall          float64
}

func loadFindings(verif string) []Finding {
	var fs []Finding
	b, err := os.ReadFile(filepath.Join(verif, "known_findings.json"))
	if err != nil {
		return nil
	}
	var doc struct {
		Findings []Finding `json:"findings"`
	}
	if json.Unmarshal(b, &doc) != nil {
		fmt.Fprintln(os.Stderr, "known_findings.json does not parse")
		os.Exit(2)
	}
	fs = doc.Findings
	return fs
}

func cmdCheck(repo, verif string, args []string) int {
	if len(args) < 1 {
		fmt.Fprintln(os.Stderr, "usage: govc check <Cxx> [quick|thorough]")
		return 2
	}
	prop := args[0]
	tier := "quick"
	if len(args) > 1 {
		tier = args[1]
	}
	if t := os.Getenv("VERIF_TIER"); t != "" && len(args) < 2 {
		tier = t
	}
	seed := 0
	if s := os.Getenv("VERIF_SEED"); s != "" {
		seed, _ = strconv.Atoi(s)
	}
	t0 := time.Now()
	p, err := LoadProgram(repo, filepath.Join(verif, "spec"))
	if err != nil {
		// /repo does not compile or contracts do not parse: machinery error, not a verdict
		fmt.Fprintln(os.Stderr, "govc: cannot load:", err)
		return 2
	}
	loadS := time.Since(t0).Seconds()
	findings := loadFindings(verif)
	p.findings = findings
	cr := &checkResult{prop: prop, tier: tier}
	var ids []string
	for id, c := range p.contracts.Funcs {
		tagged := false
		for _, pr := range c.Props {
			if pr == prop {
				tagged = true
			}
		}
		// C02 (no crash, no hang) is the union of every contract that promises no_panic, whatever else it
		// is tagged with: a broken obligation anywhere in such a function voids its panic-freedom proof and
		// that of its callers
		if prop == "C02" && c.NoPanic && !c.Trusted {
			tagged = true
		}
		if tagged {
			ids = append(ids, id)
		}
	}
	sort.Strings(ids)
	if len(ids) == 0 {
		fmt.Fprintf(os.Stderr, "govc: no contract carries property %s\n", prop)
		return 2
	}
	for _, id := range ids {
		c := p.contracts.Funcs[id]
		fn := p.byKey[id]
		if fn == nil {
			fmt.Printf("UNMATCHED-CONTRACT %s (function renamed or removed; its obligations are not generated)\n", id)
			cr.unmatched = append(cr.unmatched, id)
			continue
		}
		r := p.verifyFunction(fn, c)
		cr.funcs = append(cr.funcs, r)
		if r.Err != "" {
			// the function left the supported subset: every obligation that used to be generated for it is
			// undecided now -> reported as one failed obligation
			o := &Obligation{Name: r.Key + "#translate", Kind: "translate", Fn: r.Key, Status: "untranslatable", RawOut: r.Err, Desc: "function must stay inside the verifier's subset: " + r.Err, vc: r.VC, Pos: p.fset.Position(fn.Pos())}
			cr.obligs = append(cr.obligs, o)
		}
		for _, o := range r.Obligs {
			if o.Scoped && !hasString(o.Props, prop) {
				continue // functional clause scoped to other properties: assumed by callers, decided in those checks
			}
			cr.obligs = append(cr.obligs, o)
		}
	}
	for _, l := range p.contracts.Lemmas {
		for _, pr := range l.Props {
			if pr == prop {
				r := p.verifyLemma(l)
				cr.funcs = append(cr.funcs, r)
				if r.Err != "" {
					cr.obligs = append(cr.obligs, &Obligation{Name: r.Key + "#translate", Kind: "translate", Fn: r.Key, Status: "untranslatable", RawOut: r.Err, Desc: "lemma cannot be stated: " + r.Err, vc: r.VC})
				}
				cr.obligs = append(cr.obligs, r.Obligs...)
			}
		}
	}
	if len(cr.funcs) == 0 {
		fmt.Fprintf(os.Stderr, "govc: none of the %d contracts of %s matches a function\n", len(ids), prop)
		return 2
	}
	// known findings: weaken the listed obligations by their region
	for i := range findings {
		f := &findings[i]
		if f.Property != prop || f.Status != "known" {
			continue
		}
		for _, o := range cr.obligs {
			if o.Name == f.Obligation {
				o.Finding = f
				if f.Region != "" && o.vc != nil {
					o.Region = o.vc.regions[o.Name]
				}
			}
		}
	}
	// finite-table obligations decided by evaluation
	statics, staticAssumed := staticObligations(p, prop, verif)
	cr.staticAssumed = staticAssumed
	// lemma proofs
	cr.lemmaObs = lemmaObligations(p, verif)
	outDir := filepath.Join(verif, "out", prop)
	if os.Getenv("GOVC_REPO") != "" {
		// a run on a scratch copy (seeded changes, self-test) must not share SMT files with a run of the same
		// property on /repo or on another copy: two such runs deleted and overwrote each other's queries
		outDir = filepath.Join(verif, "out", "scratch", fmt.Sprintf("%s-%d", prop, os.Getpid()))
		if os.Getenv("GOVC_KEEP") == "" {
			defer os.RemoveAll(outDir)
		}
	}
	os.RemoveAll(outDir)
	tmo := 10
	if tier == "thorough" {
		tmo = 60
	}
	if s := os.Getenv("GOVC_TIMEOUT"); s != "" {
		fmt.Sscanf(s, "%d", &tmo)
	}
	var todo []*Obligation
	for _, o := range cr.obligs {
		if o.Kind != "translate" {
			todo = append(todo, o)
		}
	}
	discharge(todo, SolveOpts{OutDir: outDir, TimeoutS: tmo, Workers: runtime.NumCPU(), Prelude: p.prelude.text, Race: tier == "thorough"})
	runLemmas(cr.lemmaObs, p, outDir, tmo)
	for _, o := range statics {
		for i := range findings {
			fd := &findings[i]
			if fd.Property == prop && fd.Status == "known" && fd.Obligation == o.Name {
				o.Finding = fd
			}
		}
	}
	cr.obligs = append(cr.obligs, statics...)

	// verdicts
	replayDir := filepath.Join(verif, "replays", prop)
	os.RemoveAll(replayDir)
	violations := 0
	var knownPrinted []string
	seenKnown := map[string]bool{}
	for _, o := range append(append([]*Obligation{}, cr.obligs...), cr.lemmaObs...) {
		if o.ok() {
			if o.Finding != nil && o.Finding.Region != "" {
				// proved outside the region; the finding itself is reported
				msg := fmt.Sprintf("KNOWN-FINDING: property=%s %s [proved outside the region: %s]", prop, o.Finding.What, o.Finding.Region)
				if !seenKnown[msg] {
					seenKnown[msg] = true
					fmt.Println(msg)
					knownPrinted = append(knownPrinted, msg)
				}
			}
			continue
		}
		if o.Finding != nil && o.Finding.Region == "" {
			// whole obligation is a recorded finding
			msg := fmt.Sprintf("KNOWN-FINDING: property=%s %s", prop, o.Finding.What)
			if !seenKnown[msg] {
				seenKnown[msg] = true
				fmt.Println(msg)
				knownPrinted = append(knownPrinted, msg)
			}
			continue
		}
		violations++
		os.MkdirAll(replayDir, 0o755)
		path, confirmed := writeReplay(p, o, replayDir, verif, repo)
		suffix := ""
		if !confirmed {
			suffix = " no-failing-input-found"
		}
		fmt.Printf("VIOLATION property=%s replay=%s%s\n", prop, path, suffix)
		fmt.Printf("  failed obligation: %s (%s) at %s — %s\n", o.Name, o.Status, o.Pos, o.Desc)
	}
	cr.wall = time.Since(t0).Seconds()
	writeEvidence(p, cr, verif, seed, violations, knownPrinted, loadS)
	total := len(cr.obligs) + len(cr.lemmaObs)
	fmt.Printf("%s %s: %d functions under contract, %d obligations (%d lemma), %d violations, %d known findings, %.1fs\n", prop, tier, len(cr.funcs), total, len(cr.lemmaObs), violations, len(knownPrinted), cr.wall)
	if violations > 0 {
		return 1
	}
	return 0
}

// lemmaObligations: each (check-sat) of each file under spec/lemmas is one obligation.
func lemmaObligations(p *Program, verif string) []*Obligation {
	files, _ := filepath.Glob(filepath.Join(verif, "spec", "lemmas", "*.smt2"))
	sort.Strings(files)
	var out []*Obligation
	for _, f := range files {
		b, err := os.ReadFile(f)
		if err != nil {
			continue
		}
		n := 0
		for _, ln := range strings.Split(string(b), "\n") {
			if i := strings.Index(ln, ";"); i >= 0 {
				ln = ln[:i]
			}
			n += strings.Count(ln, "(check-sat)")
		}
		for i := 1; i <= n; i++ {
			out = append(out, &Obligation{Name: fmt.Sprintf("lemma:%s#%d", strings.TrimSuffix(filepath.Base(f), ".smt2"), i), Kind: "lemma", Fn: "spec/lemmas/" + filepath.Base(f), Desc: "induction proof step in " + filepath.Base(f), RawOut: f})
		}
	}
	return out
}

func runLemmas(obs []*Obligation, p *Program, outDir string, tmo int) {
	byFile := map[string][]*Obligation{}
	var files []string
	for _, o := range obs {
		if _, ok := byFile[o.RawOut]; !ok {
			files = append(files, o.RawOut)
		}
		byFile[o.RawOut] = append(byFile[o.RawOut], o)
	}
	for _, f := range files {
		b, _ := os.ReadFile(f)
		tmp := filepath.Join(outDir, "lemma_"+filepath.Base(f))
		os.MkdirAll(outDir, 0o755)
		os.WriteFile(tmp, []byte("(set-logic ALL)\n"+p.prelude.text+string(b)), 0o644)
		t0 := time.Now()
		var answers []string
		solver := ""
		for _, s := range solvers(tmo)[:2] {
			_, out, _ := runSolver(s, tmp, tmo)
			answers = nil
			for _, ln := range strings.Split(out, "\n") {
				ln = strings.TrimSpace(ln)
				if ln == "sat" || ln == "unsat" || ln == "unknown" || ln == "timeout" {
					answers = append(answers, ln)
				}
			}
			solver = s.Name
			allUnsat := len(answers) == len(byFile[f])
			for _, a := range answers {
				if a != "unsat" {
					allUnsat = false
				}
			}
			if allUnsat {
				break
			}
		}
		secs := time.Since(t0).Seconds()
		for i, o := range byFile[f] {
			o.Solver = solver
			o.Time = secs / float64(len(byFile[f]))
			if i < len(answers) {
				o.Status = answers[i]
			} else {
				o.Status = "error"
			}
			o.RawOut = "see " + tmp
		}
		allok := true
		for _, o := range byFile[f] {
			if !o.ok() {
				allok = false
			}
		}
		if allok {
			os.Remove(tmp)
		}
	}
}

// ---------------------------------------------------------------------------------------------
// evidence

func writeEvidence(p *Program, cr *checkResult, verif string, seed, violations int, known []string, loadS float64) {
	all := append(append([]*Obligation{}, cr.obligs...), cr.lemmaObs...)
	discharged := 0
	bySolver := map[string]int{}
	timeBySolver := map[string]float64{}
	byKind := map[string]int{}
	var solverTime float64
	excluded := 0
	var samples []map[string]any
	var undischarged []map[string]any
	for _, o := range all {
		byKind[o.Kind]++
		solverTime += o.Time
		if o.ok() {
			discharged++
			bySolver[o.Solver]++
			timeBySolver[o.Solver] += o.Time
		} else if o.Finding != nil && o.Finding.Region == "" {
			// a recorded finding that covers the whole obligation: reported, not part of the proof count
			excluded++
			undischarged = append(undischarged, map[string]any{"obligation": o.Name, "status": o.Status, "known_finding": true})
		} else {
			undischarged = append(undischarged, map[string]any{"obligation": o.Name, "status": o.Status, "known_finding": o.Finding != nil})
		}
	}
	// samples: a few actual obligations with their statement
	step := len(all)/8 + 1
	for i := 0; i < len(all); i += step {
		o := all[i]
		samples = append(samples, map[string]any{"obligation": o.Name, "kind": o.Kind, "statement": o.Desc, "status": o.Status, "solver": o.Solver, "seconds": round3(o.Time), "at": o.Pos.String(), "smt_context_assertions": o.NAssert})
	}
	var fns []map[string]any
	inl := map[string]bool{}
	assumed := map[string]bool{}
	hav := map[string]bool{}
	var notes []string
	for _, r := range cr.funcs {
		fns = append(fns, map[string]any{"function": r.Key, "obligations": len(r.Obligs), "contract": fmt.Sprintf("%s:%d", strings.TrimPrefix(r.Con.File, p.repoDir+"/"), r.Con.Line), "trusted": r.Con.Trusted, "translation_error": r.Err})
		for _, k := range r.Inlined {
			inl[k] = true
		}
		for _, k := range r.Assumed {
			assumed[k] = true
		}
		for _, k := range r.Havocked {
			hav[k] = true
		}
		for _, n := range r.Notes {
			notes = append(notes, r.Key+": "+n)
		}
		for _, a := range r.Con.Assumes {
			notes = append(notes, r.Key+": assumes "+a)
		}
	}
	keys := func(m map[string]bool) []string {
		var out []string
		for k := range m {
			out = append(out, k)
		}
		sort.Strings(out)
		return out
	}
	assumptions := []string{
		"go/packages + go/ssa (x/tools v0.29.0, NaiveForm) give a faithful SSA of the working tree; the translation of SSA to SMT (DESIGN.md section 2) and the SMT solvers are trusted",
		"sequential execution; memory and stack unbounded (allocation failure not modelled)",
		"strings (and byte slices converted to strings) are shorter than 2^48 bytes",
		"integers are mathematical in the logic; every + - * negation and integer conversion in the functions under contract carries a discharged no-wrap obligation, so that treatment is itself proved there",
		"lemma statements in /verif/spec/*.smt2 are proved by the hand-written induction schemas in /verif/spec/lemmas (each check-sat is an obligation of this run); spec functions (natval, pow10, scaled, automata) are the formal reading of the documentation",
		"definitional ghosts (;@definitional predicates) are total definitions and therefore consistent",
	}
	for _, k := range keys(assumed) {
		assumptions = append(assumptions, "assumed contract (not verified): "+k)
	}
	for _, k := range keys(hav) {
		assumptions = append(assumptions, "unmodelled callee treated as havoc (can only make proofs fail): "+k)
	}
	for _, n := range notes {
		assumptions = append(assumptions, n)
	}
	assumptions = append(assumptions, cr.staticAssumed...)
	for _, u := range cr.unmatched {
		assumptions = append(assumptions, "UNMATCHED-CONTRACT (no obligations generated): "+u)
	}
	cov := map[string]any{
		"obligations":                            len(all) - excluded,
		"obligations_excluded_as_known_findings": excluded,
		"discharged":                             discharged,
		"checker_cmd":                            fmt.Sprintf("/verif/bin/check %s %s  (govc: go/ssa VC generation from /repo working tree with -tags verif; one SMT-LIB query per obligation; portfolio z3 4.8.12 -> z3 5.1.0 -> cvc5 1.0)", cr.prop, cr.tier),
		"trusted_base":                           []string{"go/ssa construction (x/tools v0.29.0)", "govc SSA->SMT translation (/verif/govc)", "z3 4.8.12 / z3 5.1.0 / cvc5 1.0.x", "spec functions and reference automata in /verif/spec (formal reading of the documentation)", "assumed contracts listed under assumptions"},
		"functions_under_contract":               fns,
		"inlined_functions":                      keys(inl),
		"obligations_by_kind":                    byKind,
		"discharged_by_solver":                   bySolver,
		"solver_seconds_by_solver":               roundMap(timeBySolver),
		"solver_seconds_total":                   round3(solverTime),
		"load_and_ssa_seconds":                   round3(loadS),
		"undischarged":                           undischarged,
		"known_findings_reported":                known,
		"samples":                                samples,
		"contract_files":                         relFiles(p.contracts.Files, p.repoDir),
		"spec_files":                             relFiles(p.prelude.files, verif),
		"not_covered":                            notCovered[cr.prop],
		"bounded_standins":                       []string{},
	}
	ev := map[string]any{
		"property_id": cr.prop,
		"tier":        cr.tier,
		"seed":        seed,
		"level":       "proof",
		"coverage":    cov,
		"assumptions": assumptions,
		"wall_s":      round3(cr.wall),
		"violations":  violations,
	}
	evDir := filepath.Join(verif, "evidence")
	if os.Getenv("GOVC_REPO") != "" || os.Getenv("GOVC_SELFTEST") != "" {
		// a run on a scratch copy (self-test, mutation trials) must not overwrite the evidence of /repo
		evDir = filepath.Join(verif, "out", "scratch-evidence")
	}
	os.MkdirAll(evDir, 0o755)
	b, _ := json.MarshalIndent(ev, "", " ")
	os.WriteFile(filepath.Join(evDir, cr.prop+".json"), b, 0o644)
}

func round3(x float64) float64 { return float64(int(x*1000+0.5)) / 1000 }

func roundMap(m map[string]float64) map[string]float64 {
	out := map[string]float64{}
	for k, v := range m {
		out[k] = round3(v)
	}
	return out
}

func relFiles(fs []string, root string) []string {
	var out []string
	for _, f := range fs {
		out = append(out, strings.TrimPrefix(f, root+"/"))
	}
	sort.Strings(out)
	return out
}

// notCovered: clauses of each property statement that no contract in reach decides (DESIGN.md section 5).
var notCovered = map[string][]string{
	"C01": {
		"that Check() applies the validators to every example value of the schema and of every registered type (checker / loader pipeline)",
		"regex rule and built-in string formats (email, uri, uuid, date, datetime): external libraries",
		"or-alternatives, type references, nullable, allOf",
	},
	"C17": {
		"that the reference transducer of tools/enum_rows.py is the documented enum-rule grammar: by inspection, not machine-checked; composition of rows over a whole text",
		"the value-ending composite of stateEndValue / state0 / state1 / stateDot0 (its parts are specified: stateAfterArrayItem, stateEndTop, stateFoundArrayEnd); validateValue's duplicate detection; the events of the length-computing mode (Length() is proved in range and blank-trimmed, not to be the end of the list)",
		"Values() order and the AST of the rule; `enum: @name` vs the inline list through the loader",
	},
	"C02": {
		"loader, compiler, checker and OpenAPI conversion are not under contract: their panics are not excluded",
		"schema scanner: run-time panics are excluded in every state function, the two closures, Next (first call at or before the end of the text; later calls are not covered), the queue and stack operations and New; Length() is NOT covered (its bound needs the push-down discipline of the event stack, which the thin invariant does not carry); explicit error-valued panics are allowed exits",
		"enum rule scanner: run-time panics are excluded in every state method, Next and the queue/stack operations; explicit error-valued panics (empty-stack Pop, json.Guess on an unclassifiable literal inside validateValue) and enum.Enum's own methods (compile, Values, Len) are not",
		"recursion: termination is proved for checker.resolveRootType (key-shortcut type resolution) and for appendTypeValidators/buildList (checker list construction, guard addedTypeNames) and for collectAllowedJsonTypes (guard foundTypeNames); the recursion checker's walk, the guards of the loader (processingTypes) and the example builder are not under a termination contract; stack depth as such and memory exhaustion are not modelled",
		"known finding: Number scanner exponent magnitude above 2^40 (make with a huge length)",
	},
	"C04": {"only the integer parsers and the constraint constructors that use them; float parsing (strconv) is external"},
	"C05": {
		"that the tree walk (userTypesCollector.collect) visits every position where a type can be referred to: dynamic dispatch over the Node family, strings.Split / TrimSpace",
		"Check() reports 'type not found' iff a type reachable from the root is missing (checker pipeline); registering unused types changes nothing",
		"observed on the unchanged tree and not fixed: `@a |` makes collect index an empty string (recovered by the API into a generic error)",
	},
	"C06": {
		"which links count as mandatory (optional, nullable and array links skipped; a choice fails only if every alternative fails): the walk itself goes through the Node interface family, treated as arbitrary",
		"that every mandatory link is followed with the right type table: observed defect F17 (the type's own table replaces the root's when descending, nested cycles go unreported) - its repair breaks TestSchema_Example, so it is neither fixed nor claimed",
		"no false recursion alarms; Example() terminates and returns finite JSON for every schema that passes",
	},
	"C07": {
		"that the compiled object has exactly own ++ inherited properties, marked with their origin and keeping required/optional: the merge loop runs through the Node interface family, treated as arbitrary here",
		"duplicate property names, inheritance from a non-object or missing type, cyclic inheritance (processType's in-progress / compiled sets)",
		"what Example() and the OpenAPI listing show for the merged object",
		"AdditionalProperties.IsEqual outside its precondition (different modes): the existing test TestAdditionalProperties_IsEqual pins 'true' there",
	},
	"C09": {
		"address-derived names of unnamed types (`#%p`, ISchema.AddUnnamedType) reaching an error message (SetIncorrectUserType)",
		"independence from the registration order of AddType / AddRule as a whole-history property (no per-function contract states it)",
		"the loader invariant 'at most one type-derived constraint per node' that three reviewed map-range entries rely on",
		"pointer-valued data in results other than through errs.errorFormat",
	},
	"C10": {
		"history independence of whole results (same answer after any sequence of other inputs): a whole-history property, not a per-call contract",
		"immutability of returned ASTs, type lists and errors; the shared virtual 'any' node",
		"BufferPool.Put resets before putting back (buffer length is not modelled)",
		"Ref.MarshalJSON is trusted; schema source bytes are assumed not to be pool arrays",
	},
	"C12": {
		"that the reference transducer of tools/jsondoc_rows.py (whose rows every state function is proved to implement) is the RFC 8259 grammar: by inspection, not machine-checked",
		"composition of the rows over a whole text (language equality as a theorem about Check()); Next is specified by invariants, not by the iterated transducer",
		"tree equality with an independent decoder; of Len(): the bound Len(S) <= len(S), 'does not end in a blank', no out-of-range read, and with trailing text 'only blanks between the result and the first trailing character' are proved - not that the result is the end of the value when there is no trailing text",
	},

	"C13": {"Number.String(); known findings: 0eN rejected, exponents above 2^40"},
	"C16": {
		"schema scanner: every panic it raises is proved to be an error value, and a positioned one points inside the text; WHICH byte it points at is not specified",
		"positions produced by the loader, compiler and checker (taken from lexemes); for these only the index -> line/column computation and the rendering are proved",
	},
	"C18": {"regexp.Compile is external (uninterpreted validRE); example generation from the regex"},
	"C19": {"MarshalJSON of the ordered maps; NewRuleASTNodes / NewStringSet API preconditions"},
	"C20": {"agreement of the integer/float split of GuessSchemaType with the JSON scanner's classifier", "known finding: IsEqualSoft(null, array) is true, (array, null) false - the relation is proved for every other pair"},
}

func hasString(xs []string, x string) bool {
	for _, y := range xs {
		if y == x {
			return true
		}
	}
	return false
}
