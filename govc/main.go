package main

import (
	"fmt"
	"os"
	"path/filepath"
	"runtime"
	"sort"
	"strings"
	"time"
)

func main() {
	if len(os.Args) < 2 {
		fmt.Fprintln(os.Stderr, "usage: govc verify <fn-substring>... | check <Cxx> quick|thorough | list")
		os.Exit(2)
	}
	repo := os.Getenv("GOVC_REPO")
	if repo == "" {
		repo = "/repo"
	}
	verif := os.Getenv("GOVC_VERIF")
	if verif == "" {
		verif = "/verif"
	}
	switch os.Args[1] {
	case "verify":
		os.Exit(cmdVerify(repo, verif, os.Args[2:]))
	case "check":
		os.Exit(cmdCheck(repo, verif, os.Args[2:]))
	case "mapranges":
		p, err := LoadProgram(repo, filepath.Join(verif, "spec"))
		if err != nil {
			fmt.Fprintln(os.Stderr, err)
			os.Exit(2)
		}
		for _, s := range mapRangeSiteList(p) {
			fmt.Printf("%s @ %s  shape=%q (%s)\n", s.name(), s.pos, s.shape, s.why)
		}
	case "ssa":
		p, err := LoadProgram(repo, filepath.Join(verif, "spec"))
		if err != nil {
			fmt.Fprintln(os.Stderr, err)
			os.Exit(2)
		}
		for k, fn := range p.byKey {
			for _, w := range os.Args[2:] {
				if strings.Contains(k, w) {
					fn.WriteTo(os.Stdout)
				}
			}
		}
	default:
		fmt.Fprintln(os.Stderr, "unknown command")
		os.Exit(2)
	}
}

// cmdVerify: development command — verify all contracts whose key contains one of the substrings.
func cmdVerify(repo, verif string, pats []string) int {
	t0 := time.Now()
	p, err := LoadProgram(repo, filepath.Join(verif, "spec"))
	if err != nil {
		fmt.Fprintln(os.Stderr, err)
		return 2
	}
	p.findings = loadFindings(verif)
	fmt.Printf("loaded in %.1fs; %d contracts\n", time.Since(t0).Seconds(), len(p.contracts.Funcs))
	var ids []string
	for id := range p.contracts.Funcs {
		ids = append(ids, id)
	}
	sort.Strings(ids)
	var all []*Obligation
	var results []*FuncResult
	for _, id := range ids {
		c := p.contracts.Funcs[id]
		match := len(pats) == 0
		for _, w := range pats {
			if strings.Contains(id, w) {
				match = true
			}
		}
		if !match {
			continue
		}
		fn := p.byKey[id]
		if fn == nil {
			fmt.Printf("UNMATCHED-CONTRACT %s\n", id)
			continue
		}
		r := p.verifyFunction(fn, c)
		results = append(results, r)
		if r.Err != "" {
			fmt.Printf("TRANSLATION-FAILED %s: %s\n", r.Key, r.Err)
		}
		all = append(all, r.Obligs...)
	}
	for _, l := range p.contracts.Lemmas {
		match := len(pats) == 0
		for _, w := range pats {
			if strings.Contains("lemma "+l.Name, w) {
				match = true
			}
		}
		if match {
			r := p.verifyLemma(l)
			results = append(results, r)
			if r.Err != "" {
				fmt.Printf("TRANSLATION-FAILED %s: %s\n", r.Key, r.Err)
			}
			all = append(all, r.Obligs...)
		}
	}
	out := filepath.Join(verif, "out", "dev")
	os.RemoveAll(out)
	tmo := 10
	if s := os.Getenv("GOVC_TIMEOUT"); s != "" {
		fmt.Sscanf(s, "%d", &tmo)
	}
	for _, o := range all {
		for i := range p.findings {
			fd := &p.findings[i]
			if fd.Status == "known" && fd.Obligation == o.Name {
				o.Finding = fd
				if fd.Region != "" && o.vc != nil {
					o.Region = o.vc.regions[o.Name]
				}
			}
		}
	}
	discharge(all, SolveOpts{OutDir: out, TimeoutS: tmo, Workers: runtime.NumCPU(), Prelude: p.prelude.text})
	bad := 0
	for _, r := range results {
		fmt.Printf("== %s: %d obligations; inlined %v; assumed %v; havocked %v\n", r.Key, len(r.Obligs), r.Inlined, r.Assumed, r.Havocked)
		for _, n := range r.Notes {
			fmt.Printf("   note: %s\n", n)
		}
		for _, o := range r.Obligs {
			mark := "ok  "
			if !o.ok() {
				mark = "FAIL"
				bad++
			}
			fmt.Printf("  %s %-8s %-10s %5.2fs %s   [%s]\n", mark, o.Status, o.Solver, o.Time, o.Name, o.Desc)
		}
	}
	fmt.Printf("%d obligations, %d failed, %.1fs\n", len(all), bad, time.Since(t0).Seconds())
	if bad > 0 {
		return 1
	}
	return 0
}
