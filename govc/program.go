package main

// Loading of /repo (go/packages + go/ssa, NaiveForm), contracts, prelude; whole-program helpers
// (contract lookup, static write sets, closed-world candidate sets).

import (
	"bufio"
	"fmt"
	"go/token"
	"go/types"
	"os"
	"path/filepath"
	"regexp"
	"sort"
	"strings"

	"golang.org/x/tools/go/packages"
	"golang.org/x/tools/go/ssa"
	"golang.org/x/tools/go/ssa/ssautil"
)

type funSig struct {
	args []string
	ret  string
}

type Prelude struct {
	text   string
	funs   map[string]funSig
	consts map[string]string
	lemmas map[string]bool // define-funs allowed in 'use' hints (lemma statements and unfoldings)
	defs   map[string]bool // definitional predicates (total definitions of a ghost value)
	files  []string
}

func (p *Prelude) isLemma(name string) bool { return p.lemmas[name] }

type Program struct {
	prog      *ssa.Program
	fset      *token.FileSet
	pkgs      map[string]*ssa.Package
	pkgList   []*packages.Package
	contracts *ContractSet
	prelude   *Prelude
	allFuncs  map[*ssa.Function]bool
	byKey     map[string]*ssa.Function
	litOf     map[string]string
	tagIDs    map[string]int
	tagTypes  map[int]types.Type
	fnIDs     map[string]int
	fnByID    map[int]*ssa.Function
	wsCache   map[*ssa.Function]*writeRec
	boxed     []types.Type
	boxedDone bool
	fvCands   map[string][]*ssa.Function
	specDir   string
	findings  []Finding
	lineCache map[*ssa.Function][]int
	repoDir   string
}

func LoadProgram(repoDir, specDir string) (*Program, error) {
	cfg := &packages.Config{Mode: packages.LoadAllSyntax, Dir: repoDir, BuildFlags: []string{"-tags=verif"}, Tests: false}
	pkgs, err := packages.Load(cfg, "./...")
	if err != nil {
		return nil, err
	}
	nerr := 0
	packages.Visit(pkgs, nil, func(p *packages.Package) {
		for _, e := range p.Errors {
			fmt.Fprintln(os.Stderr, "load error:", e)
			nerr++
		}
	})
	if nerr > 0 {
		return nil, fmt.Errorf("%d package errors: /repo does not compile", nerr)
	}
	prog, spkgs := ssautil.AllPackages(pkgs, ssa.NaiveForm|ssa.InstantiateGenerics)
	prog.Build()
	p := &Program{prog: prog, fset: prog.Fset, pkgs: map[string]*ssa.Package{}, pkgList: pkgs, byKey: map[string]*ssa.Function{},
		tagIDs: map[string]int{}, tagTypes: map[int]types.Type{}, fnIDs: map[string]int{}, fnByID: map[int]*ssa.Function{},
		wsCache: map[*ssa.Function]*writeRec{}, litOf: map[string]string{}, fvCands: map[string][]*ssa.Function{}, specDir: specDir, repoDir: repoDir}
	pkgDirs := map[string]string{}
	for i, sp := range spkgs {
		if sp == nil {
			continue
		}
		path := sp.Pkg.Path()
		if !strings.HasPrefix(path, modPath) {
			continue
		}
		p.pkgs[path] = sp
		if len(pkgs[i].GoFiles) > 0 {
			pkgDirs[path] = filepath.Dir(pkgs[i].GoFiles[0])
		} else {
			pkgDirs[path] = filepath.Join(repoDir, strings.TrimPrefix(strings.TrimPrefix(path, modPath), "/"))
		}
	}
	p.allFuncs = ssautil.AllFunctions(prog)
	for fn := range p.allFuncs {
		if fn.Pkg != nil {
			p.byKey[fn.Pkg.Pkg.Path()+"::"+fn.RelString(fn.Pkg.Pkg)] = fn
		} else if fn.Origin() != nil && fn.Origin().Pkg != nil {
			// generic instance
			p.byKey[fn.Origin().Pkg.Pkg.Path()+"::"+fn.RelString(fn.Origin().Pkg.Pkg)] = fn
		} else if fn.Object() != nil && fn.Object().Pkg() != nil {
			// synthetic wrappers (bound-method closures "$bound", thunks)
			p.byKey[fn.Object().Pkg().Path()+"::"+fn.RelString(fn.Object().Pkg())] = fn
		}
	}
	cs, err := LoadContracts(repoDir, pkgDirs)
	if err != nil {
		return nil, err
	}
	p.contracts = cs
	for id, c := range cs.Funcs {
		if _, ok := p.byKey[id]; ok {
			c.Matched = true
		}
	}
	pre, err := loadPrelude(specDir)
	if err != nil {
		return nil, err
	}
	p.prelude = pre
	return p, nil
}

var reDeclareConst = regexp.MustCompile(`^\(declare-const\s+(\S+)\s+(.+)\)\s*$`)
var reDefineFun = regexp.MustCompile(`^\(define-fun(?:-rec)?\s+(\S+)\s+\(`)

func loadPrelude(dir string) (*Prelude, error) {
	p := &Prelude{funs: map[string]funSig{}, consts: map[string]string{}, lemmas: map[string]bool{}, defs: map[string]bool{}}
	files, _ := filepath.Glob(filepath.Join(dir, "*.smt2"))
	sort.Strings(files)
	// prelude.smt2 first
	sort.SliceStable(files, func(i, j int) bool {
		return filepath.Base(files[i]) == "prelude.smt2" && filepath.Base(files[j]) != "prelude.smt2"
	})
	var sb strings.Builder
	for _, f := range files {
		fh, err := os.Open(f)
		if err != nil {
			return nil, err
		}
		p.files = append(p.files, f)
		sc := bufio.NewScanner(fh)
		sc.Buffer(make([]byte, 1<<20), 1<<20)
		lemmaNext := false
		defNext := false
		for sc.Scan() {
			line := sc.Text()
			sb.WriteString(line)
			sb.WriteString("\n")
			tl := strings.TrimSpace(line)
			if strings.HasPrefix(tl, ";@lemma") || strings.HasPrefix(tl, ";@unfold") {
				lemmaNext = true
				continue
			}
			if strings.HasPrefix(tl, ";@definitional") {
				defNext = true
				continue
			}
			if strings.HasPrefix(tl, "(declare-fun ") {
				toks := sexprTokens(tl)
				// ( declare-fun name ( sorts... ) ret )
				if len(toks) > 4 && toks[3] == "(" {
					i := 4
					var args []string
					for i < len(toks) && toks[i] != ")" {
						var srt string
						srt, i = readSort(toks, i)
						args = append(args, srt)
					}
					ret, _ := readSort(toks, i+1)
					p.funs[toks[2]] = funSig{args: args, ret: ret}
				}
			} else if m := reDeclareConst.FindStringSubmatch(tl); m != nil {
				p.consts[m[1]] = strings.TrimSpace(m[2])
			} else if m := reDefineFun.FindStringSubmatch(tl); m != nil {
				name, sig, ok := parseDefineFun(tl)
				if ok {
					if len(sig.args) == 0 {
						p.consts[name] = sig.ret
					}
					p.funs[name] = sig
					if lemmaNext {
						p.lemmas[name] = true
					}
					if defNext {
						p.defs[name] = true
					}
				}
			}
			if tl != "" && !strings.HasPrefix(tl, ";") {
				lemmaNext = false
				defNext = false
			}
		}
		fh.Close()
	}
	p.text = sb.String()
	return p, nil
}

// parseDefineFun extracts name, parameter sorts and result sort from the first line of a define-fun.
func parseDefineFun(line string) (string, funSig, bool) {
	toks := sexprTokens(line)
	// ( define-fun name ( (p s) ... ) ret body...
	if len(toks) < 5 {
		return "", funSig{}, false
	}
	i := 0
	if toks[i] != "(" {
		return "", funSig{}, false
	}
	i += 2 // ( define-fun
	name := toks[i]
	i++
	if toks[i] != "(" {
		return "", funSig{}, false
	}
	i++
	var args []string
	for i < len(toks) && toks[i] == "(" {
		i++ // (
		i++ // param name
		s, n := readSort(toks, i)
		args = append(args, s)
		i = n
		if i >= len(toks) || toks[i] != ")" {
			return "", funSig{}, false
		}
		i++
	}
	if i >= len(toks) || toks[i] != ")" {
		return "", funSig{}, false
	}
	i++
	ret, _ := readSort(toks, i)
	return name, funSig{args: args, ret: ret}, true
}

func sexprTokens(s string) []string {
	var out []string
	i := 0
	for i < len(s) {
		c := s[i]
		switch {
		case c == ' ' || c == '\t':
			i++
		case c == '(' || c == ')':
			out = append(out, string(c))
			i++
		case c == ';':
			return out
		case c == '|':
			j := i + 1
			for j < len(s) && s[j] != '|' {
				j++
			}
			out = append(out, s[i:j+1])
			i = j + 1
		default:
			j := i
			for j < len(s) && s[j] != ' ' && s[j] != '(' && s[j] != ')' && s[j] != '\t' {
				j++
			}
			out = append(out, s[i:j])
			i = j
		}
	}
	return out
}

func readSort(toks []string, i int) (string, int) {
	if i >= len(toks) {
		return "", i
	}
	if toks[i] != "(" {
		return toks[i], i + 1
	}
	depth := 0
	var parts []string
	for i < len(toks) {
		t := toks[i]
		parts = append(parts, t)
		i++
		if t == "(" {
			depth++
		} else if t == ")" {
			depth--
			if depth == 0 {
				break
			}
		}
	}
	s := strings.Join(parts, " ")
	s = strings.ReplaceAll(s, "( ", "(")
	s = strings.ReplaceAll(s, " )", ")")
	return s, i
}

func splitSorts(s string) []string {
	toks := sexprTokens(s)
	var out []string
	i := 0
	for i < len(toks) {
		var srt string
		srt, i = readSort(toks, i)
		out = append(out, srt)
	}
	return out
}

// ---------------------------------------------------------------------------------------------

func (p *Program) contractFor(fn *ssa.Function) *Contract {
	if fn == nil {
		return nil
	}
	pk := fn.Pkg
	if pk == nil && fn.Origin() != nil {
		pk = fn.Origin().Pkg
	}
	if pk == nil {
		return nil
	}
	return p.contracts.Funcs[pk.Pkg.Path()+"::"+fn.RelString(pk.Pkg)]
}

func (p *Program) lookupPred(pkg *types.Package, name string) *PredDecl {
	if pkg != nil {
		if d, ok := p.contracts.Preds[pkg.Path()+"::"+name]; ok {
			return d
		}
	}
	// unique across packages?
	var found *PredDecl
	for _, d := range p.contracts.Preds {
		if d.Name == name {
			if found != nil {
				return nil
			}
			found = d
		}
	}
	return found
}

func (p *Program) lookupFuncIn(pkg *types.Package, rel string) *ssa.Function {
	if pkg != nil {
		if fn, ok := p.byKey[pkg.Path()+"::"+rel]; ok {
			return fn
		}
	}
	return nil
}

func (p *Program) fnID(fn *ssa.Function) int {
	k := fn.String()
	if id, ok := p.fnIDs[k]; ok {
		return id
	}
	id := len(p.fnIDs) + 1
	p.fnIDs[k] = id
	p.fnByID[id] = fn
	return id
}

// boxedTypes: every concrete type converted to an interface anywhere in the module (closed world for
// dynamic dispatch), computed once from MakeInterface instructions.
func (p *Program) boxedTypes() []types.Type {
	if p.boxedDone {
		return p.boxed
	}
	p.boxedDone = true
	seen := map[string]bool{}
	for fn := range p.allFuncs {
		inMod := fn.Pkg != nil && strings.HasPrefix(fn.Pkg.Pkg.Path(), modPath)
		if !inMod && !(fn.Pkg == nil && fn.Origin() != nil && fn.Origin().Pkg != nil && strings.HasPrefix(fn.Origin().Pkg.Pkg.Path(), modPath)) {
			continue
		}
		for _, b := range fn.Blocks {
			for _, in := range b.Instrs {
				if mi, ok := in.(*ssa.MakeInterface); ok {
					t := mi.X.Type()
					k := typeName(t)
					if !seen[k] {
						seen[k] = true
						p.boxed = append(p.boxed, t)
					}
				}
			}
		}
	}
	sort.Slice(p.boxed, func(i, j int) bool { return typeName(p.boxed[i]) < typeName(p.boxed[j]) })
	return p.boxed
}

// funcValueCandidates: functions of the given signature that are ever used as a value (MakeClosure,
// function constant operand other than in call position) in the module.
func (p *Program) funcValueCandidates(sig *types.Signature) []*ssa.Function {
	key := types.TypeString(sig, nil)
	if c, ok := p.fvCands[key]; ok {
		return c
	}
	seen := map[*ssa.Function]bool{}
	var out []*ssa.Function
	add := func(fn *ssa.Function) {
		if fn == nil || seen[fn] {
			return
		}
		if !types.Identical(fn.Signature.Params(), sig.Params()) || !types.Identical(fn.Signature.Results(), sig.Results()) {
			// bound closures: signature of the closure (without free vars) equals fn.Signature
			return
		}
		if !p.inModule(fn) {
			return // closed world: only functions of this module are ever stored in its function-typed values
		}
		seen[fn] = true
		out = append(out, fn)
	}
	for fn := range p.allFuncs {
		if !p.inModule(fn) {
			continue
		}
		for _, b := range fn.Blocks {
			for _, in := range b.Instrs {
				if mc, ok := in.(*ssa.MakeClosure); ok {
					add(mc.Fn.(*ssa.Function))
				}
				var ops []*ssa.Value
				ops = in.Operands(ops)
				for i, op := range ops {
					if op == nil || *op == nil {
						continue
					}
					if fv, ok := (*op).(*ssa.Function); ok {
						// skip the callee position of a static call
						if c, ok := in.(ssa.CallInstruction); ok && i == 0 && c.Common().Value == fv && !c.Common().IsInvoke() {
							continue
						}
						if _, isMC := in.(*ssa.MakeClosure); isMC {
							continue
						}
						add(fv)
					}
				}
			}
		}
	}
	sort.Slice(out, func(i, j int) bool { return out[i].String() < out[j].String() })
	p.fvCands[key] = out
	return out
}

// writeSet: conservative static set of heap components a function (transitively) may write.
func (p *Program) writeSet(fn *ssa.Function) *writeRec {
	if ws, ok := p.wsCache[fn]; ok {
		return ws
	}
	ws := newWriteRec()
	p.wsCache[fn] = ws // cycle guard: recursive calls see the partial set
	if con := p.contractFor(fn); con != nil {
		for _, m := range con.Modifies {
			if sel, ok := m.E.(ESel); ok && strings.HasPrefix(sel.F, "$") {
				// ghost field of the receiver/parameter type: find the struct type through the parameter
				if id, ok := sel.X.(EIdent); ok {
					for _, prm := range fn.Params {
						if prm.Name() == id.Name {
							if pt, ok := prm.Type().Underlying().(*types.Pointer); ok {
								if _, name, ok := structOf(pt.Elem()); ok {
									ws.comps[fieldComp(name, sel.F)] = true
								}
							}
						}
					}
				}
			}
		}
	}
	if len(fn.Blocks) == 0 {
		if _, ok := intrinsics[fn.String()]; ok {
			if iw, ok := intrinsicWrites[fn.String()]; ok {
				for _, c := range iw {
					ws.comps[c] = true
				}
			}
			ws.alloc = true
			return ws
		}
		ws.all = true
		return ws
	}
	localRoot := func(v ssa.Value) bool {
		for {
			switch t := v.(type) {
			case *ssa.Alloc:
				return !t.Heap
			case *ssa.FieldAddr:
				v = t.X
			case *ssa.IndexAddr:
				// element of a slice: heap; element of local array: local
				if _, ok := t.X.Type().Underlying().(*types.Pointer); ok {
					v = t.X
					continue
				}
				return false
			default:
				return false
			}
		}
	}
	var noteAddr func(addr ssa.Value)
	noteAddr = func(addr ssa.Value) {
		if localRoot(addr) {
			return
		}
		switch t := addr.(type) {
		case *ssa.FieldAddr:
			// top-level field of the outermost struct behind a real pointer
			top := t
			for {
				if inner, ok := top.X.(*ssa.FieldAddr); ok {
					top = inner
					continue
				}
				break
			}
			if _, ok := top.X.(*ssa.IndexAddr); ok {
				noteAddr(top.X)
				return
			}
			pt := top.X.Type().Underlying().(*types.Pointer)
			if sty, name, ok := structOf(pt.Elem()); ok {
				ws.comps[fieldComp(name, sty.Field(top.Field).Name())] = true
			}
		case *ssa.IndexAddr:
			switch xt := t.X.Type().Underlying().(type) {
			case *types.Slice:
				ws.comps[elemComp(xt.Elem())] = true
			case *types.Pointer:
				if at, ok := xt.Elem().Underlying().(*types.Array); ok {
					ws.comps[elemComp(at.Elem())] = true
				}
			}
		case *ssa.Global:
			ws.comps[globalComp(t)] = true
		default:
			pt, ok := addr.Type().Underlying().(*types.Pointer)
			if !ok {
				return
			}
			if sty, name, ok := structOf(pt.Elem()); ok {
				for i := 0; i < sty.NumFields(); i++ {
					ws.comps[fieldComp(name, sty.Field(i).Name())] = true
				}
			} else {
				ws.comps[cellComp(pt.Elem())] = true
			}
		}
	}
	merge := func(o *writeRec) {
		for c := range o.comps {
			ws.comps[c] = true
		}
		ws.all = ws.all || o.all
		ws.alloc = ws.alloc || o.alloc
	}
	for _, b := range fn.Blocks {
		for _, in := range b.Instrs {
			switch t := in.(type) {
			case *ssa.Store:
				noteAddr(t.Addr)
			case *ssa.Alloc:
				if t.Heap {
					ws.alloc = true
					et := t.Type().(*types.Pointer).Elem()
					if sty, name, ok := structOf(et); ok {
						for i := 0; i < sty.NumFields(); i++ {
							ws.comps[fieldComp(name, sty.Field(i).Name())] = true
						}
					} else if at, ok := et.Underlying().(*types.Array); ok {
						ws.comps[elemComp(at.Elem())] = true
					} else {
						ws.comps[cellComp(et)] = true
					}
				}
			case *ssa.MakeSlice:
				ws.alloc = true
				ws.comps[elemComp(t.Type().Underlying().(*types.Slice).Elem())] = true
			case *ssa.MakeMap:
				ws.alloc = true
				mt := t.Type().Underlying().(*types.Map)
				ws.comps[mapDomComp(mt)] = true
				ws.comps[mapCardComp(mt)] = true
			case *ssa.MakeClosure:
				ws.alloc = true
			case *ssa.MapUpdate:
				mt := t.Map.Type().Underlying().(*types.Map)
				ws.comps[mapDomComp(mt)] = true
				ws.comps[mapValComp(mt)] = true
				ws.comps[mapCardComp(mt)] = true
			case *ssa.Convert:
				if sl, ok := t.Type().Underlying().(*types.Slice); ok {
					ws.alloc = true
					ws.comps[elemComp(sl.Elem())] = true
				}
			case ssa.CallInstruction:
				cc := t.Common()
				if bi, ok := cc.Value.(*ssa.Builtin); ok {
					switch bi.Name() {
					case "append":
						ws.alloc = true
						if sl, ok := cc.Args[0].Type().Underlying().(*types.Slice); ok {
							ws.comps[elemComp(sl.Elem())] = true
						}
					case "copy":
						if sl, ok := cc.Args[0].Type().Underlying().(*types.Slice); ok {
							ws.comps[elemComp(sl.Elem())] = true
						}
					case "delete":
						mt := cc.Args[0].Type().Underlying().(*types.Map)
						ws.comps[mapDomComp(mt)] = true
						ws.comps[mapCardComp(mt)] = true
					}
					continue
				}
				if cc.IsInvoke() {
					iface := cc.Value.Type().Underlying().(*types.Interface)
					n := 0
					for _, ct := range p.boxedTypes() {
						if types.Implements(ct, iface) {
							if sel := p.prog.MethodSets.MethodSet(ct).Lookup(cc.Method.Pkg(), cc.Method.Name()); sel != nil {
								if m := p.prog.MethodValue(sel); m != nil {
									merge(p.writeSet(m))
									n++
								}
							}
						}
					}
					if n == 0 {
						ws.all = true
					}
					continue
				}
				if callee := cc.StaticCallee(); callee != nil {
					merge(p.writeSet(callee))
					continue
				}
				for _, c := range p.funcValueCandidates(cc.Signature()) {
					merge(p.writeSet(c))
				}
			}
		}
	}
	return ws
}

func (p *Program) compSortHint(vc *VC, comp string) string {
	// the sort of a component never touched in this VC: derive from the name where possible
	switch {
	case strings.HasPrefix(comp, "Mcard "):
		return "(Array Int Int)"
	}
	return p.compSortByName(vc, comp)
}

func (p *Program) compSortByName(vc *VC, comp string) string {
	if strings.HasPrefix(comp, "F ") {
		rest := comp[2:]
		i := strings.LastIndex(rest, ".")
		sname, fname := rest[:i], rest[i+1:]
		if t := p.namedType(sname); t != nil {
			if sty, _, ok := structOf(t); ok {
				if k := fieldIndex(sty, fname); k >= 0 {
					return vc.fieldCompSort(sty.Field(k).Type())
				}
			}
		}
	}
	if strings.HasPrefix(comp, "E ") {
		switch comp[2:] {
		case "byte", "uint8", "int", "uint", "rune", "int32", "int64", "uint64":
			return "(Array Int (Array Int Int))"
		case "string":
			return "(Array Int (Array Int Str))"
		}
		if t := p.namedType(comp[2:]); t != nil {
			return "(Array Int (Array Int " + vc.sortOf(t) + "))"
		}
	}
	return ""
}

func (p *Program) namedType(qualified string) types.Type {
	i := strings.LastIndex(qualified, ".")
	if i < 0 {
		return nil
	}
	pq, name := qualified[:i], qualified[i+1:]
	path := modPrefix + pq
	if pq == "schema" {
		path = modPath
	}
	if sp, ok := p.pkgs[path]; ok {
		if obj := sp.Pkg.Scope().Lookup(name); obj != nil {
			return obj.Type()
		}
	}
	return nil
}

// fnLines: sorted distinct source lines of the instructions of a function.
func (p *Program) fnLines(fn *ssa.Function) []int {
	if p.lineCache == nil {
		p.lineCache = map[*ssa.Function][]int{}
	}
	if l, ok := p.lineCache[fn]; ok {
		return l
	}
	seen := map[int]bool{}
	var lines []int
	for _, b := range fn.Blocks {
		for _, in := range b.Instrs {
			if in.Pos().IsValid() {
				ln := p.fset.Position(in.Pos()).Line
				if !seen[ln] {
					seen[ln] = true
					lines = append(lines, ln)
				}
			}
		}
	}
	sort.Ints(lines)
	p.lineCache[fn] = lines
	return lines
}

// fnAt: the (non-synthetic) function whose source range contains pos.
func (p *Program) fnAt(pos token.Pos) *ssa.Function {
	if !pos.IsValid() {
		return nil
	}
	var best *ssa.Function
	for fn := range p.allFuncs {
		if fn.Synthetic != "" || fn.Syntax() == nil {
			continue
		}
		n := fn.Syntax()
		if n.Pos() <= pos && pos <= n.End() {
			if best == nil || (best.Syntax().Pos() <= n.Pos()) {
				best = fn
			}
		}
	}
	return best
}

func (p *Program) ghostField(t types.Type, field string) *GhostField {
	n, ok := types.Unalias(t).(*types.Named)
	if !ok {
		return nil
	}
	for _, gf := range p.contracts.GhostFields {
		if gf.Field == field && gf.Struct == n.Obj().Name() && n.Obj().Pkg() != nil && n.Obj().Pkg().Path() == gf.PkgPath {
			return gf
		}
	}
	return nil
}

// globalWrittenOutsideInit: "" if the package-level variable g (and, conservatively, anything reached
// through a value loaded from it) is only read outside the package initialiser.
func (p *Program) globalWrittenOutsideInit(g *ssa.Global) string {
	for fn := range p.allFuncs {
		if fn.Pkg == g.Pkg && fn.Name() == "init" && fn.Synthetic != "" {
			continue
		}
		for _, b := range fn.Blocks {
			for _, in := range b.Instrs {
				if st, ok := in.(*ssa.Store); ok && st.Addr == ssa.Value(g) {
					return "stored in " + fn.String()
				}
				ld, ok := in.(*ssa.UnOp)
				if !ok || ld.X != ssa.Value(g) {
					if c, ok := in.(ssa.CallInstruction); ok {
						for _, a := range c.Common().Args {
							if a == ssa.Value(g) {
								return "address passed to a call in " + fn.String()
							}
						}
					}
					continue
				}
				// every use of the loaded value must be a read
				var check func(v ssa.Value, depth int) string
				check = func(v ssa.Value, depth int) string {
					if depth > 6 || v.Referrers() == nil {
						return ""
					}
					for _, u := range *v.Referrers() {
						switch t := u.(type) {
						case *ssa.Lookup, *ssa.Range, *ssa.Next, *ssa.Extract, *ssa.Index, *ssa.DebugRef:
							if uv, ok := u.(ssa.Value); ok && mayAliasMemory(uv.Type()) {
								if why := check(uv, depth+1); why != "" {
									return why
								}
							}
						case *ssa.IndexAddr:
							for _, u2 := range *t.Referrers() {
								if st, ok := u2.(*ssa.Store); ok && st.Addr == ssa.Value(t) {
									return "element stored in " + fn.String()
								}
							}
						case *ssa.UnOp, *ssa.BinOp, *ssa.If, *ssa.Phi:
						case *ssa.Store:
							if t.Addr == v {
								return "written through in " + fn.String()
							}
							// stored into a local: follow the local's loads
							if a, ok := t.Addr.(*ssa.Alloc); ok && !a.Heap {
								for _, u3 := range *a.Referrers() {
									if l3, ok := u3.(*ssa.UnOp); ok {
										if why := check(l3, depth+1); why != "" {
											return why
										}
									}
								}
							} else {
								return "escapes in " + fn.String()
							}
						case *ssa.MapUpdate:
							if t.Map == v {
								return "map entry assigned in " + fn.String()
							}
						case ssa.CallInstruction:
							cc := t.Common()
							if bi, ok := cc.Value.(*ssa.Builtin); ok && (bi.Name() == "len" || bi.Name() == "cap") {
								continue
							}
							return "passed to a call in " + fn.String()
						default:
							return fmt.Sprintf("used by %T in %s", u, fn.String())
						}
					}
					return ""
				}
				if why := check(ld, 0); why != "" {
					return why
				}
			}
		}
	}
	return ""
}

// inModule: the function belongs to the module under verification (directly, as a generic instance,
// as a synthetic wrapper of one of its methods, or as a function literal nested in one of those).
func (p *Program) inModule(fn *ssa.Function) bool {
	for f := fn; f != nil; f = f.Parent() {
		if f.Pkg != nil {
			return strings.HasPrefix(f.Pkg.Pkg.Path(), modPath)
		}
		if f.Origin() != nil && f.Origin().Pkg != nil {
			return strings.HasPrefix(f.Origin().Pkg.Pkg.Path(), modPath)
		}
		if f.Object() != nil && f.Object().Pkg() != nil {
			return strings.HasPrefix(f.Object().Pkg().Path(), modPath)
		}
	}
	return false
}

// mayAliasMemory: a value of this type can give write access to memory shared with where it was read from.
func mayAliasMemory(t types.Type) bool {
	switch u := types.Unalias(t).Underlying().(type) {
	case *types.Basic:
		return false
	case *types.Tuple:
		for i := 0; i < u.Len(); i++ {
			if mayAliasMemory(u.At(i).Type()) {
				return true
			}
		}
		return false
	case *types.Struct:
		for i := 0; i < u.NumFields(); i++ {
			if mayAliasMemory(u.Field(i).Type()) {
				return true
			}
		}
		return false
	}
	return true
}

// contractSignature: the text of a function's contract clauses ("" if it has none or cannot be shared);
// functions with equal signatures can be called through one modular call.
// boundTarget: for a bound-method wrapper (`x.m` used as a value) the method it calls, else nil
func boundTarget(c *ssa.Function) *ssa.Function {
	if !strings.HasSuffix(c.Name(), "$bound") || len(c.FreeVars) != 1 {
		return nil
	}
	for _, b := range c.Blocks {
		for _, in := range b.Instrs {
			if call, ok := in.(*ssa.Call); ok {
				return call.Call.StaticCallee()
			}
		}
	}
	return nil
}

// contractSignature: the text of a candidate's contract as far as a dynamic call site uses it. Candidates with the
// same signature are handled by one modular call. With thin = true (dispatch over many candidates) the scoped
// ensures and the exact panic conditions are not part of it (they are not assumed there either).
func (p *Program) contractSignature(c *ssa.Function, thin bool) string {
	target := c
	prefix := ""
	if len(c.FreeVars) > 0 {
		t := boundTarget(c)
		if t == nil || !thin {
			return ""
		}
		target = t
		prefix = "bound:"
	}
	con := p.contractFor(target)
	if con == nil || con.Inline {
		return ""
	}
	var sb strings.Builder
	sb.WriteString(prefix)
	for _, r := range con.Requires {
		sb.WriteString("R:" + r.Src + ";")
	}
	for _, r := range con.Ensures {
		if thin && len(r.Only) > 0 {
			continue
		}
		sb.WriteString("E:" + r.Src + ";")
	}
	for _, r := range con.Modifies {
		sb.WriteString("M:" + r.Src + ";")
	}
	for _, r := range con.PanicsWith {
		sb.WriteString("PW:" + r.Src + ";")
	}
	if !thin {
		for _, r := range con.Panics {
			sb.WriteString("P:" + r.When.Src + ";")
		}
	}
	for _, l := range con.Lets {
		sb.WriteString("L:" + l.Name + l.Src + ";")
	}
	sb.WriteString(fmt.Sprint(con.NoPanic, len(con.Ghosts)))
	for i, prm := range target.Params {
		sb.WriteString(fmt.Sprint(i, prm.Name()))
	}
	return sb.String()
}

// closedPred: the predicate's body mentions only its parameters, literals, boolean / arithmetic operators, fnis / fnenv
// and other closed predicates (no heap access, no quantifier) and all parameters are used as plain values.
func (p *Program) closedPred(d *PredDecl, seen map[*PredDecl]bool) bool {
	if seen[d] {
		return false
	}
	seen[d] = true
	defer delete(seen, d)
	params := map[string]bool{}
	for _, q := range d.Params {
		params[q.Name] = true
	}
	var pkg *types.Package
	for _, sp := range p.pkgs {
		if sp.Pkg.Path() == d.PkgPath {
			pkg = sp.Pkg
		}
	}
	var closed func(x Expr) bool
	closed = func(x Expr) bool {
		switch t := x.(type) {
		case EIdent:
			return params[t.Name]
		case EInt, EBool:
			return true
		case EUnary:
			return t.Op != "*" && closed(t.X)
		case EBinary:
			return closed(t.X) && closed(t.Y)
		case ECond:
			return closed(t.C) && closed(t.A) && closed(t.B)
		case ECall:
			switch t.Fn {
			case "fnis":
				return len(t.Args) == 2 && closed(t.Args[0])
			case "fnenv":
				return len(t.Args) == 1 && closed(t.Args[0])
			}
			if pkg == nil {
				return false
			}
			q := p.lookupPred(pkg, t.Fn)
			if q == nil || !p.closedPred(q, seen) {
				return false
			}
			for _, a := range t.Args {
				if !closed(a) {
					return false
				}
			}
			return true
		}
		return false
	}
	return closed(d.Body)
}
