package main

// Spec expression language: lexer + Pratt parser.
//
//   e ::= literal | ident | e.f | e[i] | e[lo:hi] | f(e,...) | old(e) | len(e) | cap(e)
//       | !e | -e | *e | e op e | e ? e : e | forall x [T], y [T] :: e | exists ... (rejected)
//       | e ==> e | e <==> e | k in m | (e)
//
// Precedence (low to high): <==>, ==> (right assoc), ?:, ||, &&, comparisons / in, + -, * / %, unary, postfix.

import (
	"fmt"
	"strconv"
	"strings"
	"unicode"
)

type Expr interface{ String() string }

type (
	EIdent struct{ Name string }
	EInt   struct{ V string }
	EBool  struct{ V bool }
	EStr   struct{ V string }
	ENil   struct{}
	EUnary struct {
		Op string
		X  Expr
	}
	EBinary struct {
		Op   string
		X, Y Expr
	}
	ECond struct{ C, A, B Expr }
	ESel  struct {
		X Expr
		F string
	}
	EIndex struct{ X, I Expr }
	ESlice struct{ X, Lo, Hi Expr }
	ECall  struct {
		Fn   string
		Args []Expr
	}
	EOld    struct{ X Expr }
	EPrev   struct{ X Expr } // value at the head of the current loop iteration (back-edge hints)
	EForall struct {
		Vars     []QVar
		Body     Expr
		Triggers [][]Expr
		Exists   bool
	}
)

type QVar struct {
	Name string
	Type string // optional: Go type or SMT sort text; default int
}

func (e EIdent) String() string { return e.Name }
func (e EInt) String() string   { return e.V }
func (e EBool) String() string  { return fmt.Sprint(e.V) }
func (e EStr) String() string   { return strconv.Quote(e.V) }
func (e ENil) String() string   { return "nil" }
func (e EUnary) String() string { return e.Op + e.X.String() }
func (e EBinary) String() string {
	return "(" + e.X.String() + " " + e.Op + " " + e.Y.String() + ")"
}
func (e ECond) String() string {
	return "(" + e.C.String() + " ? " + e.A.String() + " : " + e.B.String() + ")"
}
func (e ESel) String() string   { return e.X.String() + "." + e.F }
func (e EIndex) String() string { return e.X.String() + "[" + e.I.String() + "]" }
func (e ESlice) String() string {
	s := e.X.String() + "["
	if e.Lo != nil {
		s += e.Lo.String()
	}
	s += ":"
	if e.Hi != nil {
		s += e.Hi.String()
	}
	return s + "]"
}
func (e ECall) String() string {
	var a []string
	for _, x := range e.Args {
		a = append(a, x.String())
	}
	return e.Fn + "(" + strings.Join(a, ", ") + ")"
}
func (e EOld) String() string  { return "old(" + e.X.String() + ")" }
func (e EPrev) String() string { return "prev(" + e.X.String() + ")" }
func (e EForall) String() string {
	var v []string
	for _, q := range e.Vars {
		v = append(v, q.Name+" "+q.Type)
	}
	k := "forall "
	if e.Exists {
		k = "exists "
	}
	return "(" + k + strings.Join(v, ", ") + " :: " + e.Body.String() + ")"
}

type tok struct {
	kind string // id int str char op eof
	s    string
}

func lexSpec(src string) ([]tok, error) {
	var out []tok
	i := 0
	n := len(src)
	ops := []string{"<==>", "==>", "::", "==", "!=", "<=", ">=", "&&", "||", ":=",
		"+", "-", "*", "/", "%", "<", ">", "!", "(", ")", "[", "]", ".", ",", "?", ":", "{", "}", "#"}
	for i < n {
		c := src[i]
		switch {
		case c == ' ' || c == '\t':
			i++
		case unicode.IsLetter(rune(c)) || c == '_' || c == '$':
			j := i
			for j < n && (unicode.IsLetter(rune(src[j])) || unicode.IsDigit(rune(src[j])) || src[j] == '_' || src[j] == '$') {
				j++
			}
			out = append(out, tok{"id", src[i:j]})
			i = j
		case c >= '0' && c <= '9':
			j := i
			for j < n && (src[j] >= '0' && src[j] <= '9' || src[j] == 'x' || (src[j] >= 'a' && src[j] <= 'f') || (src[j] >= 'A' && src[j] <= 'F')) {
				j++
			}
			v, err := strconv.ParseInt(src[i:j], 0, 64)
			if err != nil {
				// big decimal
				out = append(out, tok{"int", src[i:j]})
			} else {
				out = append(out, tok{"int", strconv.FormatInt(v, 10)})
			}
			i = j
		case c == '"':
			j := i + 1
			for j < n && src[j] != '"' {
				if src[j] == '\\' {
					j++
				}
				j++
			}
			if j >= n {
				return nil, fmt.Errorf("unterminated string in %q", src)
			}
			s, err := strconv.Unquote(src[i : j+1])
			if err != nil {
				return nil, fmt.Errorf("bad string %s: %v", src[i:j+1], err)
			}
			out = append(out, tok{"str", s})
			i = j + 1
		case c == '\'':
			j := i + 1
			for j < n && src[j] != '\'' {
				if src[j] == '\\' {
					j++
				}
				j++
			}
			if j >= n {
				return nil, fmt.Errorf("unterminated char in %q", src)
			}
			r, _, _, err := strconv.UnquoteChar(src[i+1:j], '\'')
			if err != nil {
				return nil, fmt.Errorf("bad char %s: %v", src[i:j+1], err)
			}
			out = append(out, tok{"int", strconv.Itoa(int(r))})
			i = j + 1
		default:
			matched := false
			for _, op := range ops {
				if strings.HasPrefix(src[i:], op) {
					out = append(out, tok{"op", op})
					i += len(op)
					matched = true
					break
				}
			}
			if !matched {
				return nil, fmt.Errorf("unexpected character %q in %q", c, src)
			}
		}
	}
	out = append(out, tok{"eof", ""})
	return out, nil
}

type specParser struct {
	toks []tok
	p    int
	src  string
}

func ParseSpec(src string) (e Expr, err error) {
	toks, err := lexSpec(src)
	if err != nil {
		return nil, err
	}
	ps := &specParser{toks: toks, src: src}
	defer func() {
		if r := recover(); r != nil {
			if pe, ok := r.(parseErr); ok {
				err = fmt.Errorf("%s in %q", string(pe), src)
				return
			}
			panic(r)
		}
	}()
	e = ps.parseExpr(0)
	if ps.peek().kind != "eof" {
		ps.fail("unexpected token %q", ps.peek().s)
	}
	return e, nil
}

type parseErr string

func (ps *specParser) fail(f string, a ...any) { panic(parseErr(fmt.Sprintf(f, a...))) }
func (ps *specParser) peek() tok               { return ps.toks[ps.p] }
func (ps *specParser) next() tok               { t := ps.toks[ps.p]; ps.p++; return t }
func (ps *specParser) isOp(s string) bool {
	t := ps.peek()
	return t.kind == "op" && t.s == s
}
func (ps *specParser) expectOp(s string) {
	if !ps.isOp(s) {
		ps.fail("expected %q, found %q", s, ps.peek().s)
	}
	ps.p++
}

var binPrec = map[string]int{
	"<==>": 1, "==>": 2, "||": 4, "&&": 5,
	"==": 6, "!=": 6, "<": 6, "<=": 6, ">": 6, ">=": 6, "in": 6,
	"+": 7, "-": 7, "*": 8, "/": 8, "%": 8,
}

func (ps *specParser) parseExpr(minPrec int) Expr {
	lhs := ps.parseUnary()
	for {
		t := ps.peek()
		var op string
		if t.kind == "op" {
			op = t.s
		} else if t.kind == "id" && t.s == "in" {
			op = "in"
		}
		if op == "?" && minPrec <= 3 {
			ps.p++
			a := ps.parseExpr(3)
			ps.expectOp(":")
			b := ps.parseExpr(3)
			lhs = ECond{lhs, a, b}
			continue
		}
		prec, ok := binPrec[op]
		if !ok || prec < minPrec {
			return lhs
		}
		ps.p++
		var rhs Expr
		if op == "==>" {
			rhs = ps.parseExpr(prec) // right assoc
		} else {
			rhs = ps.parseExpr(prec + 1)
		}
		lhs = EBinary{op, lhs, rhs}
	}
}

func (ps *specParser) parseUnary() Expr {
	t := ps.peek()
	if t.kind == "op" && (t.s == "!" || t.s == "-" || t.s == "*") {
		ps.p++
		x := ps.parseUnary()
		if t.s == "-" {
			if lit, ok := x.(EInt); ok {
				return EInt{"-" + lit.V}
			}
		}
		return EUnary{t.s, x}
	}
	if t.kind == "id" && (t.s == "forall" || t.s == "exists") {
		ps.p++
		var vars []QVar
		for {
			id := ps.next()
			if id.kind != "id" {
				ps.fail("expected bound variable")
			}
			qv := QVar{Name: id.s}
			// optional type: tokens until ',' or '::'
			var ty []string
			for !(ps.isOp(",") || ps.isOp("::")) {
				if ps.peek().kind == "eof" {
					ps.fail("unterminated quantifier")
				}
				ty = append(ty, ps.next().s)
			}
			qv.Type = strings.Join(ty, "")
			vars = append(vars, qv)
			if ps.isOp(",") {
				ps.p++
				continue
			}
			break
		}
		ps.expectOp("::")
		var trig [][]Expr
		for ps.isOp("{") {
			ps.p++
			var tr []Expr
			for {
				tr = append(tr, ps.parseExpr(0))
				if ps.isOp(",") {
					ps.p++
					continue
				}
				break
			}
			ps.expectOp("}")
			trig = append(trig, tr)
		}
		body := ps.parseExpr(0)
		return EForall{Vars: vars, Body: body, Triggers: trig, Exists: t.s == "exists"}
	}
	return ps.parsePostfix(ps.parsePrimary())
}

func (ps *specParser) parsePrimary() Expr {
	t := ps.next()
	switch t.kind {
	case "int":
		return EInt{t.s}
	case "str":
		return EStr{t.s}
	case "id":
		switch t.s {
		case "true":
			return EBool{true}
		case "false":
			return EBool{false}
		case "nil":
			return ENil{}
		case "old":
			ps.expectOp("(")
			x := ps.parseExpr(0)
			ps.expectOp(")")
			return EOld{x}
		case "prev":
			ps.expectOp("(")
			x := ps.parseExpr(0)
			ps.expectOp(")")
			return EPrev{x}
		}
		name := t.s
		// qualified spec names a.b are handled as selection; calls:
		if ps.isOp("(") {
			ps.p++
			var args []Expr
			if !ps.isOp(")") {
				for {
					args = append(args, ps.parseExpr(0))
					if ps.isOp(",") {
						ps.p++
						continue
					}
					break
				}
			}
			ps.expectOp(")")
			return ECall{name, args}
		}
		if ps.isOp("#") { // name#2 disambiguation
			ps.p++
			k := ps.next()
			name = name + "#" + k.s
		}
		return EIdent{name}
	case "op":
		if t.s == "(" {
			e := ps.parseExpr(0)
			ps.expectOp(")")
			return e
		}
	}
	ps.fail("unexpected token %q", t.s)
	return nil
}

func (ps *specParser) parsePostfix(x Expr) Expr {
	for {
		switch {
		case ps.isOp("."):
			ps.p++
			id := ps.next()
			if id.kind != "id" {
				ps.fail("expected field name after '.'")
			}
			if ps.isOp("(") { // method-like spec call x.f(args) => f(x, args)
				ps.p++
				args := []Expr{x}
				if !ps.isOp(")") {
					for {
						args = append(args, ps.parseExpr(0))
						if ps.isOp(",") {
							ps.p++
							continue
						}
						break
					}
				}
				ps.expectOp(")")
				x = ECall{id.s, args}
			} else {
				x = ESel{x, id.s}
			}
		case ps.isOp("["):
			ps.p++
			var lo, hi Expr
			if ps.isOp(":") {
				ps.p++
				if !ps.isOp("]") {
					hi = ps.parseExpr(0)
				}
				ps.expectOp("]")
				x = ESlice{x, nil, hi}
				continue
			}
			lo = ps.parseExpr(0)
			if ps.isOp(":") {
				ps.p++
				if !ps.isOp("]") {
					hi = ps.parseExpr(0)
				}
				ps.expectOp("]")
				x = ESlice{x, lo, hi}
				continue
			}
			ps.expectOp("]")
			x = EIndex{x, lo}
		default:
			return x
		}
	}
}
