package main

// Evaluation of spec expressions to SMT terms in a symbolic state.

import (
	"fmt"
	"go/constant"
	"go/token"
	"go/types"
	"sort"
	"strings"

	"golang.org/x/tools/go/ssa"
)

type Env struct {
	vc    *VC
	pkg   *ssa.Package
	fn    *ssa.Function
	st    *State
	old   *State
	vars  map[string]Val
	frame *Frame // for local cells by name (nil in callee-contract evaluation)
	bound map[string]Val
	inOld bool
	prev  *State // loop-head state of the current iteration
}

func (f *Frame) env(st *State) *Env {
	vars := map[string]Val{}
	for k, v := range f.params {
		vars[k] = v
	}
	for k, v := range f.spec {
		vars[k] = v
	}
	return &Env{vc: f.vc, pkg: f.fn.Pkg, fn: f.fn, st: st, old: f.entry, vars: vars, frame: f}
}

func (e *Env) with(name string, v Val) *Env {
	n := *e
	n.bound = map[string]Val{}
	for k, x := range e.bound {
		n.bound[k] = x
	}
	n.bound[name] = v
	return &n
}

func (e *Env) inState(st *State) *Env {
	n := *e
	n.st = st
	return &n
}

func (e *Env) evalBool(x Expr) string {
	v := e.eval(x)
	if v.sort(e.vc) != "Bool" {
		unsup("spec expression %s is not boolean (sort %s)", x, v.sort(e.vc))
	}
	return v.T
}

func (v Val) sort(vc *VC) string {
	if v.Typ != nil {
		return vc.sortOf(v.Typ)
	}
	return v.Sort
}

var tInt = types.Typ[types.Int]
var tBool = types.Typ[types.Bool]

func mathInt(t string) Val  { return Val{T: t, Sort: "Int"} }
func mathBool(t string) Val { return Val{T: t, Sort: "Bool"} }

func (e *Env) pkgTypes() *types.Package {
	if e.pkg != nil {
		return e.pkg.Pkg
	}
	if e.fn != nil && e.fn.Origin() != nil && e.fn.Origin().Pkg != nil {
		return e.fn.Origin().Pkg.Pkg
	}
	return nil
}

// goTypeOf resolves a Go type expression written in a contract (in the scope of the contract's package).
func (e *Env) goTypeOf(s string) types.Type {
	s = strings.TrimSpace(s)
	switch s {
	case "Int", "Bool", "":
		return nil
	}
	if strings.HasPrefix(s, "(") { // SMT sort
		return nil
	}
	p := e.pkgTypes()
	if p == nil {
		return nil
	}
	tv, err := types.Eval(e.vc.prog.fset, p, token.NoPos, s)
	if err != nil || tv.Type == nil {
		// try via imports of the package (types.Eval at NoPos uses package scope, which has no file imports)
		if i := strings.Index(s, "."); i > 0 {
			prefix := strings.TrimLeft(s[:i], "*[]")
			lead := s[:strings.Index(s, prefix)]
			imps := append([]*types.Package{}, p.Imports()...)
			sort.SliceStable(imps, func(a, b int) bool {
				return strings.HasPrefix(imps[a].Path(), modPath) && !strings.HasPrefix(imps[b].Path(), modPath)
			})
			for _, imp := range imps {
				if imp.Name() == prefix {
					if obj := imp.Scope().Lookup(s[i+1:]); obj != nil {
						t := obj.Type()
						for j := len(lead) - 1; j >= 0; j-- {
							switch lead[j] {
							case '*':
								t = types.NewPointer(t)
							case ']':
								t = types.NewSlice(t)
								j--
							}
						}
						return t
					}
				}
			}
		}
		return nil
	}
	return tv.Type
}

func (e *Env) sortOfTypeString(s string) string {
	s = strings.TrimSpace(s)
	if s == "" || s == "Int" || s == "int" {
		return "Int"
	}
	if s == "Bool" {
		return "Bool"
	}
	if strings.HasPrefix(s, "(") || s == "Str" || s == "Slice" || s == "Iface" || s == "Fn" {
		return s
	}
	if t := e.goTypeOf(s); t != nil {
		return e.vc.sortOf(t)
	}
	unsup("cannot resolve type %q in contract", s)
	return ""
}

func (e *Env) eval(x Expr) Val {
	vc := e.vc
	switch t := x.(type) {
	case EInt:
		return mathInt(smtInt(t.V))
	case EBool:
		return mathBool(fmt.Sprint(t.V))
	case EStr:
		return Val{T: vc.strLit(t.V), Typ: types.Typ[types.String]}
	case ENil:
		return Val{T: "0", Sort: "Nil"}
	case EIdent:
		return e.ident(t.Name)
	case EOld:
		oe := e.inState(e.old)
		oe.inOld = true
		return oe.pinContent(oe.eval(t.X))
	case EPrev:
		if e.prev == nil {
			unsup("spec: prev() is only available at a loop back edge")
		}
		pe := e.inState(e.prev)
		return pe.pinContent(pe.eval(t.X))
	case EUnary:
		switch t.Op {
		case "!":
			return mathBool(not(e.evalBool(t.X)))
		case "-":
			return mathInt(fmt.Sprintf("(- %s)", e.eval(t.X).T))
		case "*":
			v := e.eval(t.X)
			pt, ok := types.Unalias(v.Typ).Underlying().(*types.Pointer)
			if !ok {
				unsup("spec: * applied to non-pointer %s", t.X)
			}
			return e.loadRef(v.T, pt.Elem())
		}
	case EBinary:
		return e.binary(t)
	case ECond:
		c := e.evalBool(t.C)
		a, b := e.eval(t.A), e.eval(t.B)
		r := a
		r.T = fmt.Sprintf("(ite %s %s %s)", c, a.T, b.T)
		return r
	case ESel:
		return e.sel(t)
	case EIndex:
		return e.index(t)
	case ESlice:
		xv := e.eval(t.X)
		if _, ok := types.Unalias(xv.Typ).Underlying().(*types.Slice); !ok {
			unsup("spec: slice expression on %s", t.X)
		}
		lo := "0"
		if t.Lo != nil {
			lo = e.eval(t.Lo).T
		}
		hi := fmt.Sprintf("(len %s)", xv.T)
		if t.Hi != nil {
			hi = e.eval(t.Hi).T
		}
		return Val{T: fmt.Sprintf("(mk_slice (arr %s) (+ (off %s) %s) (- %s %s) (- (cap %s) %s))", xv.T, xv.T, lo, hi, lo, xv.T, lo), Typ: xv.Typ, Content: xv.Content}
	case ECall:
		return e.callSpec(t)
	case EForall:
		return e.quant(t)
	}
	unsup("spec: cannot evaluate %s", x)
	return Val{}
}

func (e *Env) ident(name string) Val {
	vc := e.vc
	if v, ok := e.bound[name]; ok {
		return v
	}
	if e.inOld {
		// entry state: local cells do not exist yet; parameters denote their entry values
		if v, ok := e.vars[name]; ok {
			return v
		}
	}
	// contract-level names (lets, ghosts) shadow locals
	if e.frame != nil {
		if v, ok := e.frame.spec[name]; ok {
			return v
		}
	}
	// current local cell (loop invariants, hints)
	if e.frame != nil {
		if a := e.frame.cellByName(name, e.st); a != nil {
			et := a.Type().(*types.Pointer).Elem()
			if !a.Heap {
				if t, ok := e.st.cells[a]; ok {
					return Val{T: t, Typ: et}
				}
			} else if v, ok := e.frame.vals[a]; ok && v.Loc != nil && v.Loc.Kind == LocRef {
				return e.loadRef(v.Loc.Ref, et)
			}
		}
	}
	if v, ok := e.vars[name]; ok {
		return v
	}
	// package-level constant / variable
	if p := e.pkgTypes(); p != nil {
		if obj := p.Scope().Lookup(name); obj != nil {
			return e.object(obj)
		}
	}
	if s, ok := vc.prog.prelude.consts[name]; ok {
		return Val{T: name, Sort: s}
	}
	unsup("spec: unknown name %q (in %s)", name, shortFnOrNil(e.fn))
	return Val{}
}

func shortFnOrNil(fn *ssa.Function) string {
	if fn == nil {
		return "?"
	}
	return shortFn(fn)
}

func (e *Env) object(obj types.Object) Val {
	vc := e.vc
	switch o := obj.(type) {
	case *types.Const:
		switch o.Val().Kind() {
		case constant.Int:
			return Val{T: smtInt(o.Val().ExactString()), Typ: o.Type()}
		case constant.Bool:
			return Val{T: fmt.Sprint(constant.BoolVal(o.Val())), Typ: o.Type()}
		case constant.String:
			return Val{T: vc.strLit(constant.StringVal(o.Val())), Typ: o.Type()}
		}
	case *types.Var:
		// package-level variable: its component in the current state
		for _, sp := range vc.prog.pkgs {
			if sp.Pkg == o.Pkg() {
				if g, ok := sp.Members[o.Name()].(*ssa.Global); ok {
					return Val{T: vc.comp(e.st, globalComp(g), vc.sortOf(o.Type())), Typ: o.Type()}
				}
			}
		}
	}
	unsup("spec: cannot use %s in a specification", obj)
	return Val{}
}

func (f *Frame) cellByName(name string, st *State) *ssa.Alloc {
	want := name
	k := 1
	if i := strings.Index(name, "#"); i >= 0 {
		want = name[:i]
		fmt.Sscanf(name[i+1:], "%d", &k)
	}
	var found []*ssa.Alloc
	for _, b := range f.fn.Blocks {
		for _, in := range b.Instrs {
			if a, ok := in.(*ssa.Alloc); ok && a.Comment == want {
				found = append(found, a)
			}
		}
	}
	if len(found) == 0 {
		return nil
	}
	// parameters are spilled into cells of the same name: those come first
	if k-1 < len(found) {
		// prefer cells that are live in the state
		if k == 1 && len(found) > 1 {
			var live []*ssa.Alloc
			for _, a := range found {
				if _, ok := st.cells[a]; ok {
					live = append(live, a)
				}
			}
			if len(live) == 1 {
				return live[0]
			}
		}
		return found[k-1]
	}
	return nil
}

func (e *Env) loadRef(ref string, t types.Type) Val {
	vc := e.vc
	if sty, name, ok := structOf(t); ok {
		vc.structSort(name, sty)
		if sty.NumFields() == 0 {
			return Val{T: q("mk " + name), Typ: t}
		}
		var fs []string
		for i := 0; i < sty.NumFields(); i++ {
			c := vc.comp(e.st, fieldComp(name, sty.Field(i).Name()), vc.fieldCompSort(sty.Field(i).Type()), sty.Field(i).Type())
			fs = append(fs, fmt.Sprintf("(select %s %s)", c, ref))
		}
		return Val{T: "(" + q("mk "+name) + " " + strings.Join(fs, " ") + ")", Typ: t}
	}
	c := vc.comp(e.st, cellComp(t), "(Array Int "+vc.sortOf(t)+")")
	return Val{T: fmt.Sprintf("(select %s %s)", c, ref), Typ: t}
}

func (e *Env) sel(t ESel) Val {
	vc := e.vc
	// package-qualified name?
	if id, ok := t.X.(EIdent); ok {
		if _, isVar := e.lookupQuiet(id.Name); !isVar {
			if p := e.pkgTypes(); p != nil {
				for _, imp := range p.Imports() {
					if imp.Name() == id.Name {
						if obj := imp.Scope().Lookup(t.F); obj != nil {
							return e.object(obj)
						}
					}
				}
			}
		}
	}
	xv := e.eval(t.X)
	if xv.Typ == nil {
		// SMT datatype selectors on math values
		switch xv.Sort {
		case "Slice":
			return Val{T: fmt.Sprintf("(%s %s)", t.F, xv.T), Sort: "Int"}
		}
		unsup("spec: selection .%s on value of sort %s", t.F, xv.Sort)
	}
	ut := types.Unalias(xv.Typ)
	if pt, ok := ut.Underlying().(*types.Pointer); ok {
		sty, name, ok := structOf(pt.Elem())
		if !ok {
			unsup("spec: .%s on pointer to non-struct", t.F)
		}
		if strings.HasPrefix(t.F, "$") {
			gf := vc.prog.ghostField(pt.Elem(), t.F)
			if gf == nil {
				unsup("spec: no ghostfield %s declared for %s", t.F, name)
			}
			srt := e.sortOfTypeString(gf.Sort)
			c := vc.comp(e.st, fieldComp(name, t.F), "(Array Int "+srt+")")
			return Val{T: fmt.Sprintf("(select %s %s)", c, xv.T), Sort: srt}
		}
		i := fieldIndex(sty, t.F)
		if i < 0 {
			unsup("spec: struct %s has no field %s", name, t.F)
		}
		c := vc.comp(e.st, fieldComp(name, t.F), vc.fieldCompSort(sty.Field(i).Type()), sty.Field(i).Type())
		return Val{T: fmt.Sprintf("(select %s %s)", c, xv.T), Typ: sty.Field(i).Type()}
	}
	if _, ok := ut.Underlying().(*types.Slice); ok {
		switch t.F {
		case "arr", "off", "len", "cap":
			return Val{T: fmt.Sprintf("(%s %s)", t.F, xv.T), Sort: "Int"}
		}
	}
	if sty, name, ok := structOf(ut); ok {
		i := fieldIndex(sty, t.F)
		if i < 0 {
			// promoted field through embedded struct
			for j := 0; j < sty.NumFields(); j++ {
				if sty.Field(j).Embedded() {
					if est, _, ok := structOf(sty.Field(j).Type()); ok && fieldIndex(est, t.F) >= 0 {
						vc.structSort(name, sty)
						inner := Val{T: fmt.Sprintf("(%s %s)", fieldSel(name, sty.Field(j).Name(), j), xv.T), Typ: sty.Field(j).Type()}
						return e.with("$emb", inner).sel(ESel{EIdent{"$emb"}, t.F})
					}
				}
			}
			unsup("spec: struct %s has no field %s", name, t.F)
		}
		vc.structSort(name, sty)
		return Val{T: fmt.Sprintf("(%s %s)", fieldSel(name, t.F, i), xv.T), Typ: sty.Field(i).Type()}
	}
	unsup("spec: selection .%s on %s", t.F, xv.Typ)
	return Val{}
}

func (e *Env) lookupQuiet(name string) (Val, bool) {
	if v, ok := e.bound[name]; ok {
		return v, true
	}
	if v, ok := e.vars[name]; ok {
		return v, true
	}
	if e.frame != nil && e.frame.cellByName(name, e.st) != nil {
		return Val{}, true
	}
	return Val{}, false
}

func fieldIndex(st *types.Struct, name string) int {
	for i := 0; i < st.NumFields(); i++ {
		if st.Field(i).Name() == name {
			return i
		}
	}
	return -1
}

func (e *Env) index(t EIndex) Val {
	vc := e.vc
	xv := e.eval(t.X)
	iv := e.eval(t.I)
	if xv.Typ == nil {
		// SMT array
		if strings.HasPrefix(xv.Sort, "(Array ") {
			_, el := arraySorts(xv.Sort)
			return Val{T: fmt.Sprintf("(select %s %s)", xv.T, iv.T), Sort: el}
		}
		unsup("spec: index on sort %s", xv.Sort)
	}
	switch u := types.Unalias(xv.Typ).Underlying().(type) {
	case *types.Slice:
		if xv.Content != "" {
			return Val{T: fmt.Sprintf("(select %s (+ (off %s) %s))", xv.Content, xv.T, iv.T), Typ: u.Elem()}
		}
		c := vc.comp(e.st, elemComp(u.Elem()), vc.elemCompSort(u.Elem()), u.Elem())
		return Val{T: fmt.Sprintf("(select (select %s (arr %s)) (+ (off %s) %s))", c, xv.T, xv.T, iv.T), Typ: u.Elem()}
	case *types.Basic:
		return Val{T: fmt.Sprintf("(sat %s %s)", xv.T, iv.T), Typ: types.Typ[types.Uint8]}
	case *types.Map:
		ks, vs := vc.sortOf(u.Key()), vc.sortOf(u.Elem())
		c := vc.comp(e.st, mapValComp(u), fmt.Sprintf("(Array Int (Array %s %s))", ks, vs))
		d := vc.comp(e.st, mapDomComp(u), fmt.Sprintf("(Array Int (Array %s Bool))", ks))
		// Go semantics: the zero value for an absent key (and for a nil map)
		return Val{T: fmt.Sprintf("(ite (and (not (= %s 0)) (select (select %s %s) %s)) (select (select %s %s) %s) %s)", xv.T, d, xv.T, iv.T, c, xv.T, iv.T, vc.zero(u.Elem())), Typ: u.Elem()}
	case *types.Array:
		return Val{T: fmt.Sprintf("(select %s %s)", xv.T, iv.T), Typ: u.Elem()}
	}
	unsup("spec: index on %s", xv.Typ)
	return Val{}
}

func arraySorts(s string) (idx, el string) {
	// "(Array I E)" with possibly nested parens
	body := strings.TrimSuffix(strings.TrimPrefix(s, "(Array "), ")")
	depth := 0
	for i := 0; i < len(body); i++ {
		switch body[i] {
		case '(':
			depth++
		case ')':
			depth--
		case ' ':
			if depth == 0 {
				return body[:i], body[i+1:]
			}
		}
	}
	return "Int", "Int"
}

func (e *Env) binary(t EBinary) Val {
	vc := e.vc
	switch t.Op {
	case "&&":
		return mathBool(and(e.evalBool(t.X), e.evalBool(t.Y)))
	case "||":
		return mathBool(or(e.evalBool(t.X), e.evalBool(t.Y)))
	case "==>":
		return mathBool(implies(e.evalBool(t.X), e.evalBool(t.Y)))
	case "<==>":
		return mathBool(fmt.Sprintf("(= %s %s)", e.evalBool(t.X), e.evalBool(t.Y)))
	case "in":
		k := e.eval(t.X)
		m := e.eval(t.Y)
		if m.Typ != nil {
			if mt, ok := types.Unalias(m.Typ).Underlying().(*types.Map); ok {
				ks := vc.sortOf(mt.Key())
				c := vc.comp(e.st, mapDomComp(mt), fmt.Sprintf("(Array Int (Array %s Bool))", ks))
				return mathBool(fmt.Sprintf("(and (not (= %s 0)) (select (select %s %s) %s))", m.T, c, m.T, k.T))
			}
		}
		if strings.HasPrefix(m.Sort, "(Array ") {
			return mathBool(fmt.Sprintf("(select %s %s)", m.T, k.T))
		}
		unsup("spec: 'in' on %s", t.Y)
	}
	a, b := e.eval(t.X), e.eval(t.Y)
	switch t.Op {
	case "+", "-", "*":
		if a.Typ != nil {
			if bt, ok := types.Unalias(a.Typ).Underlying().(*types.Basic); ok && bt.Info()&types.IsString != 0 && t.Op == "+" {
				return Val{T: fmt.Sprintf("(scat %s %s)", a.T, b.T), Typ: a.Typ}
			}
		}
		return mathInt(fmt.Sprintf("(%s %s %s)", t.Op, a.T, b.T))
	case "/":
		return mathInt(fmt.Sprintf("(go_div %s %s)", a.T, b.T))
	case "%":
		return mathInt(fmt.Sprintf("(go_mod %s %s)", a.T, b.T))
	case "<", "<=", ">", ">=":
		return mathBool(fmt.Sprintf("(%s %s %s)", t.Op, a.T, b.T))
	case "==", "!=":
		var eq string
		sa := a.sort(vc)
		sb := b.sort(vc)
		switch {
		case sa == "Nil" || sb == "Nil":
			other, os := a, sa
			if sa == "Nil" {
				other, os = b, sb
			}
			switch os {
			case "Int", "Nil":
				eq = fmt.Sprintf("(= %s 0)", other.T)
			case "Slice":
				eq = fmt.Sprintf("(= (arr %s) 0)", other.T)
			case "Iface":
				eq = fmt.Sprintf("(= (iface_tag %s) 0)", other.T)
			case "Fn":
				eq = fmt.Sprintf("(= (fn_id %s) 0)", other.T)
			default:
				unsup("spec: comparison of %s with nil", os)
			}
		case sa == "Str":
			eq = vc.streq(a.T, b.T)
		default:
			if sa != sb {
				unsup("spec: comparing different sorts %s and %s in %s", sa, sb, t)
			}
			eq = fmt.Sprintf("(= %s %s)", a.T, b.T)
		}
		if t.Op == "!=" {
			eq = not(eq)
		}
		return mathBool(eq)
	}
	unsup("spec: operator %s", t.Op)
	return Val{}
}

func (e *Env) quant(t EForall) Val {
	vc := e.vc
	if t.Exists {
		unsup("spec: exists is not supported (use a ghost witness)")
	}
	// A quantifier over a slice index is re-based to the ABSOLUTE position in the backing array, so that
	// its trigger is a plain (select array p) that matches every read whatever offset arithmetic produced
	// the index:  forall j :: P(s[j])   ==>   forall p :: P'(elems(s)[p])  with j = p - off(s).
	if len(t.Vars) == 1 && len(t.Triggers) == 0 && (t.Vars[0].Type == "" || t.Vars[0].Type == "int" || t.Vars[0].Type == "Int") {
		if x, inOld := findIndexed(t.Body, t.Vars[0].Name, false); x != nil {
			xe := e
			if inOld {
				xe = e.inState(e.old)
				xe.inOld = true
			}
			if xv, ok := xe.tryEval(x); ok && xv.Typ != nil {
				if sl, isSlice := types.Unalias(xv.Typ).Underlying().(*types.Slice); isSlice {
					name := "q_" + t.Vars[0].Name
					hdr := vc.define("qs", "Slice", xv.T)
					env := e.with(t.Vars[0].Name, Val{T: fmt.Sprintf("(- %s (off %s))", name, hdr), Sort: "Int"})
					body := env.evalBool(t.Body)
					c := vc.comp(xe.st, elemComp(sl.Elem()), vc.elemCompSort(sl.Elem()), sl.Elem())
					pat := fmt.Sprintf("(select (select %s (arr %s)) %s)", c, hdr, name)
					return mathBool(fmt.Sprintf("(forall ((%s Int)) (! %s :pattern (%s)))", name, body, pat))
				}
			}
		}
	}
	env := e
	var binders []string
	for _, qv := range t.Vars {
		srt := "Int"
		var gt types.Type
		if qv.Type != "" {
			srt = e.sortOfTypeString(qv.Type)
			gt = e.goTypeOf(qv.Type)
		}
		name := "q_" + qv.Name
		binders = append(binders, fmt.Sprintf("(%s %s)", name, srt))
		v := Val{T: name, Sort: srt, Typ: gt}
		env = env.with(qv.Name, v)
	}
	body := env.evalBool(t.Body)
	var pats []string
	for _, tr := range t.Triggers {
		var ps []string
		for _, p := range tr {
			ps = append(ps, env.eval(p).T)
		}
		pats = append(pats, ":pattern ("+strings.Join(ps, " ")+")")
	}
	if len(pats) > 0 {
		return mathBool(fmt.Sprintf("(forall (%s) (! %s %s))", strings.Join(binders, " "), body, strings.Join(pats, " ")))
	}
	return mathBool(fmt.Sprintf("(forall (%s) %s)", strings.Join(binders, " "), body))
}

// tryEval evaluates an expression, reporting failure instead of aborting.
func (e *Env) tryEval(x Expr) (v Val, ok bool) {
	defer func() {
		if r := recover(); r != nil {
			if _, isUnsup := r.(unsupported); isUnsup {
				ok = false
				return
			}
			panic(r)
		}
	}()
	return e.eval(x), true
}

// findIndexed looks for a sub-expression X[j] where j is exactly the bound variable and X does not
// mention it; returns X and whether it sits under old().
func findIndexed(x Expr, j string, inOld bool) (Expr, bool) {
	switch t := x.(type) {
	case EIndex:
		if id, ok := t.I.(EIdent); ok && id.Name == j && !mentions(t.X, j) {
			return t.X, inOld
		}
		if r, o := findIndexed(t.X, j, inOld); r != nil {
			return r, o
		}
		return findIndexed(t.I, j, inOld)
	case EOld:
		return findIndexed(t.X, j, true)
	case EPrev:
		return nil, false
	case EUnary:
		return findIndexed(t.X, j, inOld)
	case EBinary:
		if r, o := findIndexed(t.X, j, inOld); r != nil {
			return r, o
		}
		return findIndexed(t.Y, j, inOld)
	case ECond:
		for _, s := range []Expr{t.C, t.A, t.B} {
			if r, o := findIndexed(s, j, inOld); r != nil {
				return r, o
			}
		}
	case ESel:
		return findIndexed(t.X, j, inOld)
	case ECall:
		for _, a := range t.Args {
			if r, o := findIndexed(a, j, inOld); r != nil {
				return r, o
			}
		}
	case EForall:
		for _, v := range t.Vars {
			if v.Name == j {
				return nil, false
			}
		}
		return findIndexed(t.Body, j, inOld)
	}
	return nil, false
}

func mentions(x Expr, name string) bool {
	switch t := x.(type) {
	case EIdent:
		return t.Name == name
	case EIndex:
		return mentions(t.X, name) || mentions(t.I, name)
	case ESlice:
		return mentions(t.X, name) || (t.Lo != nil && mentions(t.Lo, name)) || (t.Hi != nil && mentions(t.Hi, name))
	case EOld:
		return mentions(t.X, name)
	case EPrev:
		return mentions(t.X, name)
	case EUnary:
		return mentions(t.X, name)
	case EBinary:
		return mentions(t.X, name) || mentions(t.Y, name)
	case ECond:
		return mentions(t.C, name) || mentions(t.A, name) || mentions(t.B, name)
	case ESel:
		return mentions(t.X, name)
	case ECall:
		for _, a := range t.Args {
			if mentions(a, name) {
				return true
			}
		}
	case EForall:
		return mentions(t.Body, name)
	}
	return false
}

// expandArg turns a spec value into the SMT argument list of a prelude function parameter list.
func (e *Env) expandArg(v Val) []string {
	vc := e.vc
	if v.Typ != nil {
		if sl, ok := types.Unalias(v.Typ).Underlying().(*types.Slice); ok {
			if v.Content != "" {
				return []string{v.Content, fmt.Sprintf("(off %s)", v.T)}
			}
			c := vc.comp(e.st, elemComp(sl.Elem()), vc.elemCompSort(sl.Elem()), sl.Elem())
			return []string{fmt.Sprintf("(select %s (arr %s))", c, v.T), fmt.Sprintf("(off %s)", v.T)}
		}
	}
	return []string{v.T}
}

func (e *Env) callSpec(t ECall) Val {
	vc := e.vc
	switch t.Fn {
	case "len", "cap":
		v := e.eval(t.Args[0])
		if v.Typ == nil {
			if v.Sort == "Slice" {
				return mathInt(fmt.Sprintf("(%s %s)", t.Fn, v.T))
			}
			if v.Sort == "Str" {
				return mathInt(fmt.Sprintf("(slen %s)", v.T))
			}
			unsup("spec: len of sort %s", v.Sort)
		}
		switch u := types.Unalias(v.Typ).Underlying().(type) {
		case *types.Slice:
			return mathInt(fmt.Sprintf("(%s %s)", t.Fn, v.T))
		case *types.Basic:
			return mathInt(fmt.Sprintf("(slen %s)", v.T))
		case *types.Map:
			c := vc.comp(e.st, mapCardComp(u), "(Array Int Int)")
			return mathInt(fmt.Sprintf("(ite (= %s 0) 0 (select %s %s))", v.T, c, v.T))
		}
		unsup("spec: len of %s", v.Typ)
	case "elems": // content array of a slice's backing store
		v := e.eval(t.Args[0])
		sl, ok := types.Unalias(v.Typ).Underlying().(*types.Slice)
		if !ok {
			unsup("spec: elems of non-slice")
		}
		c := vc.comp(e.st, elemComp(sl.Elem()), vc.elemCompSort(sl.Elem()), sl.Elem())
		return Val{T: fmt.Sprintf("(select %s (arr %s))", c, v.T), Sort: "(Array Int " + vc.sortOf(sl.Elem()) + ")"}
	case "tag":
		v := e.eval(t.Args[0])
		return mathInt(fmt.Sprintf("(iface_tag %s)", v.T))
	case "typeis": // typeis(x, T): dynamic type of interface value x is T
		v := e.eval(t.Args[0])
		ty := e.goTypeOf(exprText(t.Args[1]))
		if ty == nil {
			unsup("spec: typeis: unknown type %s", t.Args[1])
		}
		return mathBool(fmt.Sprintf("(= (iface_tag %s) %d)", v.T, vc.typeTag(ty)))
	case "unbox": // unbox(x, T)
		v := e.eval(t.Args[0])
		ty := e.goTypeOf(exprText(t.Args[1]))
		if ty == nil {
			unsup("spec: unbox: unknown type %s", t.Args[1])
		}
		_, ub := vc.boxFns(ty)
		return Val{T: fmt.Sprintf("(%s %s)", ub, v.T), Typ: ty}
	case "fnis": // fnis(f, "(*scanner).stateX"): function value f is that function / bound method
		v := e.eval(t.Args[0])
		name, ok := t.Args[1].(EStr)
		if !ok {
			unsup("spec: fnis needs a string literal")
		}
		fn := vc.prog.lookupFuncIn(e.pkgTypes(), name.V)
		if fn == nil {
			unsup("spec: fnis: unknown function %q", name.V)
		}
		return mathBool(fmt.Sprintf("(= (fn_id %s) %d)", v.T, vc.fnID(fn)))
	case "fnenv":
		v := e.eval(t.Args[0])
		return mathInt(fmt.Sprintf("(fn_env %s)", v.T))
	case "fncap": // fncap(f, T): the variable of type T captured (by reference) by the closure f with one free variable
		v := e.eval(t.Args[0])
		ty := e.goTypeOf(exprText(t.Args[1]))
		if ty == nil {
			unsup("spec: fncap: unknown type %s", t.Args[1])
		}
		return e.loadRef(fmt.Sprintf("(fn_env %s)", v.T), ty)
	case "allocated": // reference existed at function entry
		v := e.eval(t.Args[0])
		return mathBool(fmt.Sprintf("(< %s %s)", refTerm(v), e.old.alloc))
	case "live": // reference is an allocated object in the current state (below the allocation counter)
		v := e.eval(t.Args[0])
		return mathBool(fmt.Sprintf("(< %s %s)", refTerm(v), e.st.alloc))
	case "keys_subset_len": // axiom of the map model (finite sets): dom(a) ⊆ dom(b) ==> len(a) <= len(b); same key type
		a, b := e.eval(t.Args[0]), e.eval(t.Args[1])
		ma, ok1 := types.Unalias(a.Typ).Underlying().(*types.Map)
		mb, ok2 := types.Unalias(b.Typ).Underlying().(*types.Map)
		if !ok1 || !ok2 || vc.sortOf(ma.Key()) != vc.sortOf(mb.Key()) {
			unsup("spec: keys_subset_len needs two maps with the same key type")
		}
		ks := vc.sortOf(ma.Key())
		da := vc.comp(e.st, mapDomComp(ma), fmt.Sprintf("(Array Int (Array %s Bool))", ks))
		db := vc.comp(e.st, mapDomComp(mb), fmt.Sprintf("(Array Int (Array %s Bool))", ks))
		ca := vc.comp(e.st, mapCardComp(ma), "(Array Int Int)")
		cb := vc.comp(e.st, mapCardComp(mb), "(Array Int Int)")
		vc.assumed["map model: a map whose keys all belong to another map has no more entries than it (finite-set cardinality axiom, instantiated by keys_subset_len)"] = true
		k := vc.fresh("k")
		la := fmt.Sprintf("(ite (= %s 0) 0 (select %s %s))", a.T, ca, a.T)
		lb := fmt.Sprintf("(ite (= %s 0) 0 (select %s %s))", b.T, cb, b.T)
		ina := fmt.Sprintf("(and (not (= %s 0)) (select (select %s %s) %s))", a.T, da, a.T, k)
		inb := fmt.Sprintf("(and (not (= %s 0)) (select (select %s %s) %s))", b.T, db, b.T, k)
		return mathBool(fmt.Sprintf("(and (>= %s 0) (>= %s 0) (=> (forall ((%s %s)) (=> %s %s)) (<= %s %s)))", la, lb, k, ks, ina, inb, la, lb))
	case "keys_subset2_len": // axiom of the map model: dom(a) ⊆ dom(b) ∪ dom(c) ==> len(a) <= len(b) + len(c); same key type
		a, b, c := e.eval(t.Args[0]), e.eval(t.Args[1]), e.eval(t.Args[2])
		ma, ok1 := types.Unalias(a.Typ).Underlying().(*types.Map)
		mb, ok2 := types.Unalias(b.Typ).Underlying().(*types.Map)
		mc, ok3 := types.Unalias(c.Typ).Underlying().(*types.Map)
		if !ok1 || !ok2 || !ok3 || vc.sortOf(ma.Key()) != vc.sortOf(mb.Key()) || vc.sortOf(ma.Key()) != vc.sortOf(mc.Key()) {
			unsup("spec: keys_subset2_len needs three maps with the same key type")
		}
		ks := vc.sortOf(ma.Key())
		vc.assumed["map model: a map whose keys all belong to one of two other maps has no more entries than the two together (finite-set cardinality axiom, instantiated by keys_subset2_len)"] = true
		k := vc.fresh("k")
		ln := func(v Val, m *types.Map) string {
			cc := vc.comp(e.st, mapCardComp(m), "(Array Int Int)")
			return fmt.Sprintf("(ite (= %s 0) 0 (select %s %s))", v.T, cc, v.T)
		}
		in := func(v Val, m *types.Map) string {
			d := vc.comp(e.st, mapDomComp(m), fmt.Sprintf("(Array Int (Array %s Bool))", ks))
			return fmt.Sprintf("(and (not (= %s 0)) (select (select %s %s) %s))", v.T, d, v.T, k)
		}
		la, lb, lc := ln(a, ma), ln(b, mb), ln(c, mc)
		return mathBool(fmt.Sprintf("(and (>= %s 0) (>= %s 0) (>= %s 0) (=> (forall ((%s %s)) (=> %s (or %s %s))) (<= %s (+ %s %s))))", la, lb, lc, k, ks, in(a, ma), in(b, mb), in(c, mc), la, lb, lc))
	case "fresh": // reference allocated during the call
		v := e.eval(t.Args[0])
		return mathBool(fmt.Sprintf("(>= %s %s)", refTerm(v), e.old.alloc))
	case "eqlit": // eqlit(bytes, "literal"): the byte slice (or string) has exactly that content
		v := e.eval(t.Args[0])
		lit, ok := t.Args[1].(EStr)
		if !ok {
			unsup("spec: eqlit needs a string literal")
		}
		var facts []string
		if v.sort(vc) == "Str" {
			facts = append(facts, fmt.Sprintf("(= (slen %s) %d)", v.T, len(lit.V)))
			for i := 0; i < len(lit.V); i++ {
				facts = append(facts, fmt.Sprintf("(= (sat %s %d) %d)", v.T, i, lit.V[i]))
			}
			return mathBool(and(facts...))
		}
		sl, isSlice := types.Unalias(v.Typ).Underlying().(*types.Slice)
		if !isSlice {
			unsup("spec: eqlit on %s", v.Typ)
		}
		c := vc.comp(e.st, elemComp(sl.Elem()), vc.elemCompSort(sl.Elem()), sl.Elem())
		facts = append(facts, fmt.Sprintf("(= (len %s) %d)", v.T, len(lit.V)))
		for i := 0; i < len(lit.V); i++ {
			facts = append(facts, fmt.Sprintf("(= (select (select %s (arr %s)) (+ (off %s) %d)) %d)", c, v.T, v.T, i, lit.V[i]))
		}
		return mathBool(and(facts...))
	case "once_done": // once_done(p.f.g): the sync.Once at that field path of object p has fired
		var path []string
		x := t.Args[0]
		for {
			sel, ok := x.(ESel)
			if !ok {
				break
			}
			xv, ok2 := e.tryEval(sel.X)
			if !ok2 {
				unsup("spec: once_done: cannot evaluate %s", sel.X)
			}
			ut := types.Unalias(xv.Typ)
			if pt, isPtr := ut.Underlying().(*types.Pointer); isPtr {
				_, name, _ := structOf(pt.Elem())
				path = append([]string{name + "." + sel.F}, path...)
				c := vc.comp(e.st, "Once.done "+strings.Join(path, "/"), "(Array Int Bool)")
				return mathBool(fmt.Sprintf("(select %s %s)", c, xv.T))
			}
			_, name, isStruct := structOf(ut)
			if !isStruct {
				unsup("spec: once_done: %s is not a struct", sel.X)
			}
			path = append([]string{name + "." + sel.F}, path...)
			x = sel.X
		}
		unsup("spec: once_done needs a field path rooted at a pointer")
	case "pool_array": // the byte array (by id) belongs to the buffer-pool subsystem
		v := e.eval(t.Args[0])
		_, arrays, _ := vc.poolComps(e.st)
		return mathBool(fmt.Sprintf("(select %s %s)", arrays, refTerm(v)))
	case "pool_buffer": // the *bytes.Buffer belongs to the buffer-pool subsystem
		v := e.eval(t.Args[0])
		bufs, _, _ := vc.poolComps(e.st)
		return mathBool(fmt.Sprintf("(select %s %s)", bufs, v.T))
	case "pool_held": // the *bytes.Buffer is checked out of its pool by the function under verification
		v := e.eval(t.Args[0])
		c := vc.comp(e.st, poolHeldComp, "(Array Int Bool)")
		return mathBool(fmt.Sprintf("(select %s %s)", c, v.T))
	case "buf_sep", "buf_open": // ghost: the last write to the *bytes.Buffer was WriteByte(',') / WriteByte of '{' or '['
		v := e.eval(t.Args[0])
		c := vc.comp(e.st, bufSepComp, "(Array Int Int)")
		k := "1"
		if t.Fn == "buf_open" {
			k = "2"
		}
		return mathBool(fmt.Sprintf("(= (select %s %s) %s)", c, v.T, k))
	case "buf_arr": // identity of the backing array of a *bytes.Buffer
		v := e.eval(t.Args[0])
		c := vc.bufArr(e.st)
		return mathInt(fmt.Sprintf("(select %s %s)", c, v.T))
	case "store": // store(array, index, value) on SMT arrays
		a, i, v := e.eval(t.Args[0]), e.eval(t.Args[1]), e.eval(t.Args[2])
		return Val{T: fmt.Sprintf("(store %s %s %s)", a.T, i.T, v.T), Sort: a.sort(vc)}
	case "call", "call1", "call2": // result of a pure callback applied to arguments
		fv := e.eval(t.Args[0])
		sig, ok := types.Unalias(fv.Typ).Underlying().(*types.Signature)
		if !ok {
			unsup("spec: call(f, ...) needs a function value")
		}
		idx := 0
		if t.Fn != "call" {
			idx = int(t.Fn[4] - '0')
		}
		var args []string
		for _, a := range t.Args[1:] {
			args = append(args, e.eval(a).T)
		}
		rt := sig.Results().At(idx).Type()
		return Val{T: vc.pureApply(sig, idx, fv.T, args), Typ: rt}
	case "pure": // pure("pkg::key", args...): result of a contracted function, axiomatised by its contract
		return e.pureCall(t)
	case "str": // str(byteslice): the string with that content
		v := e.eval(t.Args[0])
		if e.frame == nil {
			f := &Frame{vc: vc}
			return Val{T: f.bytesToString(v.T, e.st), Typ: types.Typ[types.String]}
		}
		return Val{T: e.frame.bytesToString(v.T, e.st), Typ: types.Typ[types.String]}
	}
	// predicate from a contract file
	if p := vc.prog.lookupPred(e.pkgTypes(), t.Fn); p != nil {
		if len(p.Params) != len(t.Args) {
			unsup("spec: predicate %s expects %d arguments", t.Fn, len(p.Params))
		}
		// a closed predicate (its body reads nothing but its parameters) becomes one SMT function, applied at each use
		if vc.prog.closedPred(p, map[*PredDecl]bool{}) {
			var args, sorts []string
			var vals []Val
			ok := true
			for _, a := range t.Args {
				v := e.eval(a)
				srt := v.Sort
				if srt == "" && v.Typ != nil {
					srt = vc.sortOf(v.Typ)
				}
				if srt == "" || v.Loc != nil || len(v.Tuple) > 0 {
					ok = false
					break
				}
				args = append(args, v.T)
				sorts = append(sorts, srt)
				vals = append(vals, v)
			}
			if ok && len(args) > 0 {
				fname := q("pred " + p.PkgPath + "." + p.Name + " " + strings.Join(sorts, " "))
				if !vc.declared[fname] {
					penv := *e
					penv.bound = map[string]Val{}
					penv.frame = nil
					penv.vars = map[string]Val{}
					for _, sp := range vc.prog.pkgs {
						if sp.Pkg.Path() == p.PkgPath {
							penv.pkg = sp
						}
					}
					var decl []string
					for i, prm := range p.Params {
						v := vals[i]
						v.T = fmt.Sprintf("x!%d", i)
						if gt := penv.goTypeOf(prm.Type); gt != nil {
							v.Typ = gt
						} else if v.Typ != nil {
							v = Val{T: v.T, Sort: e.sortOfTypeString(prm.Type)}
						}
						penv.bound[prm.Name] = v
						decl = append(decl, fmt.Sprintf("(x!%d %s)", i, sorts[i]))
					}
					bv := penv.eval(p.Body)
					isBool := bv.Sort == "Bool"
					if bt, ok := bv.Typ.(*types.Basic); ok && bv.Typ != nil && bt.Kind() == types.Bool {
						isBool = true
					}
					if isBool {
						vc.rawDecl(fname, fmt.Sprintf("(define-fun %s (%s) Bool %s)", fname, strings.Join(decl, " "), bv.T))
					} else {
						vc.declared[fname] = true
						vc.notBoolPred[fname] = true
					}
				}
				if !vc.notBoolPred[fname] {
					return mathBool("(" + fname + " " + strings.Join(args, " ") + ")")
				}
			}
		}
		// predicates are evaluated in the scope of their own package
		penv := *e
		penv.bound = map[string]Val{}
		penv.frame = nil
		penv.vars = map[string]Val{}
		for _, sp := range vc.prog.pkgs {
			if sp.Pkg.Path() == p.PkgPath {
				penv.pkg = sp
			}
		}
		for i, prm := range p.Params {
			v := e.eval(t.Args[i])
			if gt := penv.goTypeOf(prm.Type); gt != nil {
				v.Typ = gt
			} else if v.Typ != nil {
				v = Val{T: v.T, Sort: e.sortOfTypeString(prm.Type)}
			}
			penv.bound[prm.Name] = v
		}
		return penv.eval(p.Body)
	}
	// prelude (spec) function
	if sig, ok := vc.prog.prelude.funs[t.Fn]; ok {
		var args []string
		for _, a := range t.Args {
			args = append(args, e.expandArg(e.eval(a))...)
		}
		if len(args) != len(sig.args) {
			unsup("spec: %s expects %d SMT arguments, got %d (%s)", t.Fn, len(sig.args), len(args), t)
		}
		if len(args) == 0 {
			return Val{T: t.Fn, Sort: sig.ret}
		}
		return Val{T: "(" + t.Fn + " " + strings.Join(args, " ") + ")", Sort: sig.ret}
	}
	unsup("spec: unknown function or predicate %q", t.Fn)
	return Val{}
}

func refTerm(v Val) string {
	if v.Typ != nil {
		if _, ok := types.Unalias(v.Typ).Underlying().(*types.Slice); ok {
			return fmt.Sprintf("(arr %s)", v.T)
		}
	}
	return v.T
}

func exprText(x Expr) string {
	switch t := x.(type) {
	case EIdent:
		return t.Name
	case ESel:
		return exprText(t.X) + "." + t.F
	case EUnary:
		return t.Op + exprText(t.X)
	case EStr:
		return t.V
	}
	return x.String()
}

// modTarget interprets one modifies clause.
func (e *Env) modTarget(x Expr, out map[string][]string) {
	vc := e.vc
	switch t := x.(type) {
	case ESel:
		xv := e.eval(t.X)
		if xv.Typ != nil {
			if pt, ok := types.Unalias(xv.Typ).Underlying().(*types.Pointer); ok {
				if _, name, ok := structOf(pt.Elem()); ok {
					k := fieldComp(name, t.F)
					out[k] = append(out[k], xv.T)
					return
				}
			}
		}
	case EUnary:
		if t.Op == "*" {
			xv := e.eval(t.X)
			if pt, ok := types.Unalias(xv.Typ).Underlying().(*types.Pointer); ok {
				if sty, name, ok := structOf(pt.Elem()); ok {
					for i := 0; i < sty.NumFields(); i++ {
						k := fieldComp(name, sty.Field(i).Name())
						out[k] = append(out[k], xv.T)
					}
					return
				}
				k := cellComp(pt.Elem())
				out[k] = append(out[k], xv.T)
				return
			}
		}
	case ECall:
		switch t.Fn {
		case "elems":
			xv := e.eval(t.Args[0])
			if sl, ok := types.Unalias(xv.Typ).Underlying().(*types.Slice); ok {
				k := elemComp(sl.Elem())
				out[k] = append(out[k], fmt.Sprintf("(arr %s)", xv.T))
				return
			}
		case "mapof":
			xv := e.eval(t.Args[0])
			if mt, ok := types.Unalias(xv.Typ).Underlying().(*types.Map); ok {
				(&Frame{vc: vc}).mapComps(mt, e.st) // declare the three components (with their sorts) before they are havocked
				for _, k := range []string{mapDomComp(mt), mapValComp(mt), mapCardComp(mt)} {
					out[k] = append(out[k], xv.T)
				}
				return
			}
		case "anything":
			out["*"] = append(out["*"], "true")
			return
		case "pool_state":
			// the pool subsystem may grow (by fresh buffers / arrays only) and rewrite its own arrays
			vc.poolComps(e.st)
			ek := elemComp(types.Typ[types.Uint8])
			vc.comp(e.st, ek, vc.elemCompSort(types.Typ[types.Uint8]), types.Typ[types.Uint8])
			out[poolBufsComp] = append(out[poolBufsComp], "POOL")
			out[poolArraysComp] = append(out[poolArraysComp], "POOL")
			out[bufArrComp] = append(out[bufArrComp], "ALL")
			vc.comp(e.st, poolHeldComp, "(Array Int Bool)")
			out[poolHeldComp] = append(out[poolHeldComp], "ALL")
			vc.comp(e.st, bufSepComp, "(Array Int Int)")
			out[bufSepComp] = append(out[bufSepComp], "ALL")
			out[ek] = append(out[ek], "POOLED")
			return
		case "once_done":
			// the ghost flag of a sync.Once at a field path
			var path []string
			x := t.Args[0]
			for {
				sel, ok := x.(ESel)
				if !ok {
					break
				}
				xv, ok2 := e.tryEval(sel.X)
				if !ok2 {
					break
				}
				ut := types.Unalias(xv.Typ)
				if pt, isPtr := ut.Underlying().(*types.Pointer); isPtr {
					_, name, _ := structOf(pt.Elem())
					path = append([]string{name + "." + sel.F}, path...)
					k := "Once.done " + strings.Join(path, "/")
					vc.comp(e.st, k, "(Array Int Bool)")
					out[k] = append(out[k], xv.T)
					return
				}
				_, name, isStruct := structOf(ut)
				if !isStruct {
					break
				}
				path = append([]string{name + "." + sel.F}, path...)
				x = sel.X
			}
		}
	}
	_ = vc
	unsup("modifies: cannot interpret %s", x)
}

// pureCall: the value returned by a function under contract, characterised only by that contract
// (its requires become obligations of the lemma, its ensures assumptions). The heap is not changed.
func (e *Env) pureCall(t ECall) Val {
	vc := e.vc
	if len(t.Args) < 1 {
		unsup("pure needs a function key")
	}
	key, ok := t.Args[0].(EStr)
	if !ok {
		unsup("pure: first argument must be a string literal naming the function")
	}
	var fn *ssa.Function
	if i := strings.Index(key.V, "::"); i >= 0 {
		for path := range vc.prog.pkgs {
			if qualifierPath(path) == key.V[:i] {
				fn = vc.prog.byKey[path+"::"+key.V[i+2:]]
			}
		}
	} else {
		fn = vc.prog.lookupFuncIn(e.pkgTypes(), key.V)
	}
	if fn == nil {
		unsup("pure: unknown function %q", key.V)
	}
	con := vc.prog.contractFor(fn)
	if con == nil {
		unsup("pure: %s has no contract", key.V)
	}
	if len(con.Modifies) > 0 {
		unsup("pure: %s has a modifies clause", key.V)
	}
	if len(t.Args)-1 != len(fn.Params) {
		unsup("pure: %s takes %d arguments", key.V, len(fn.Params))
	}
	vars := map[string]Val{}
	for i, p := range fn.Params {
		v := e.eval(t.Args[i+1])
		v.Typ = p.Type()
		vars[p.Name()] = v
	}
	cenv := &Env{vc: vc, pkg: fn.Pkg, st: e.st, old: e.st, vars: vars, fn: fn}
	for i, r := range con.Requires {
		vc.oblige("pre", fmt.Sprintf("%s#pre:%s.%d", vc.fnName, shortFn(fn), i+1), "true", cenv.evalBool(r.E), vc.prog.fset.Position(fn.Pos()), "precondition of "+shortFn(fn)+" in a lemma: "+r.Src)
	}
	for _, p := range con.Panics {
		vc.oblige("pre", fmt.Sprintf("%s#nopanic:%s", vc.fnName, shortFn(fn)), "true", not(cenv.evalBool(p.When.E)), vc.prog.fset.Position(fn.Pos()), shortFn(fn)+" does not panic on the lemma's arguments: "+p.When.Src)
	}
	res := fn.Signature.Results()
	var rvals []Val
	for i := 0; i < res.Len(); i++ {
		rt := res.At(i).Type()
		n := vc.freshConst("pure "+fn.Name(), vc.sortOf(rt))
		vc.assert(vc.typed(n, rt, 2))
		rv := Val{T: n, Typ: rt}
		rvals = append(rvals, rv)
		if nm := res.At(i).Name(); nm != "" && nm != "_" {
			vars[nm] = rv
		}
		vars[fmt.Sprintf("result%d", i)] = rv
		if res.Len() == 1 {
			vars["result"] = rv
		}
	}
	for _, en := range con.Ensures {
		vc.assert(cenv.evalBool(en.E))
	}
	vc.assumed["contract of "+shortFn(fn)+" (used as its axiomatisation in a lemma; verified separately)"] = true
	if len(rvals) == 1 {
		return rvals[0]
	}
	return Val{Tuple: rvals, Typ: res}
}

func qualifierPath(path string) string {
	if path == modPath {
		return "schema"
	}
	return strings.TrimPrefix(path, modPrefix)
}

// pinContent: a slice value taken from another state (old / prev) keeps the content of its backing array
// in that state, so that indexing it or passing it to a spec function does not read the current heap.
func (e *Env) pinContent(v Val) Val {
	if v.Typ == nil || v.Content != "" {
		return v
	}
	if sl, ok := types.Unalias(v.Typ).Underlying().(*types.Slice); ok {
		c := e.vc.comp(e.st, elemComp(sl.Elem()), e.vc.elemCompSort(sl.Elem()), sl.Elem())
		v.Content = e.vc.define("oldc", "(Array Int "+e.vc.sortOf(sl.Elem())+")", fmt.Sprintf("(select %s (arr %s))", c, v.T))
	}
	return v
}
