package main

// Assumed contracts of functions outside the verified code (standard library, formatting).
// Every use is recorded in vc.assumed and echoed into the evidence.

import (
	"fmt"
	"go/types"
	"strings"

	"golang.org/x/tools/go/ssa"
)

type intrinsic func(f *Frame, callee *ssa.Function, args []Val, pc string, st *State, ins ssa.Value) (Val, string)

var intrinsics map[string]intrinsic
var intrinsicWrites = map[string][]string{}

func init() {
	intrinsics = map[string]intrinsic{
		"(" + modPrefix + "errs.Code).F": intrCodeF,
		// sequential model: locks are no-ops (assumption: no other goroutine touches the state)
		"regexp.Compile":          intrRegexpCompile,
		"(*sync.Once).Do":         intrOnceDo,
		"strconv.Quote":           intrStrconvQuote,
		"unicode/utf8.DecodeRune": intrDecodeRune,
		"strconv.Itoa":            intrFreshString,
		"strconv.FormatUint":      intrFormatUint,
		"strconv.FormatInt":       intrFreshString,
		"strconv.FormatBool":      intrFreshString,
		"fmt.Sprintf":             intrFreshString,
		"strings.Repeat":          intrStringsRepeat,
		"(*sync.RWMutex).Lock":    intrNoop,
		"(*sync.RWMutex).Unlock":  intrNoop,
		"(*sync.RWMutex).RLock":   intrNoop,
		"(*sync.RWMutex).RUnlock": intrNoop,
		"(*sync.Mutex).Lock":      intrNoop,
		"(*sync.Mutex).Unlock":    intrNoop,
	}
	intrinsicWrites["("+modPrefix+"errs.Code).F"] = []string{"F errs.Err.Code_", "F errs.Err.message"}
}

// (errs.Code).F(args...) *Err — assumed: returns a fresh non-nil *Err carrying the code; does not panic
// (the placeholder-count check of errs.f is the subject of C16-H4, not of the callers).
func intrCodeF(f *Frame, callee *ssa.Function, args []Val, pc string, st *State, ins ssa.Value) (Val, string) {
	vc := f.vc
	rt := callee.Signature.Results().At(0).Type() // *errs.Err
	et := rt.(*types.Pointer).Elem()
	r := f.newRef(st, "Err")
	l := &Loc{Kind: LocRef, Ref: r, Typ: et}
	sty, name, _ := structOf(et)
	vc.structSort(name, sty)
	msg := vc.freshConst("errmsg", "Str")
	f.store(l, fmt.Sprintf("(%s %s %s)", q("mk "+name), args[0].T, msg), st, pc, posOf(ins, f))
	return Val{T: r, Typ: rt}, pc
}

func intrNoop(f *Frame, callee *ssa.Function, args []Val, pc string, st *State, ins ssa.Value) (Val, string) {
	return Val{}, pc
}

// regexp.Compile(expr) — assumed: succeeds exactly when validRE(expr) (uninterpreted); returns a fresh
// non-nil *Regexp on success and nil with a non-nil error otherwise; never panics.
func intrRegexpCompile(f *Frame, callee *ssa.Function, args []Val, pc string, st *State, ins ssa.Value) (Val, string) {
	vc := f.vc
	res := callee.Signature.Results()
	ok := vc.define("validRE", "Bool", fmt.Sprintf("(validRE %s)", args[0].T))
	r := f.newRef(st, "Regexp")
	re := vc.define("re", "Int", fmt.Sprintf("(ite %s %s 0)", ok, r))
	errv := vc.freshConst("reerr", "Iface")
	vc.assert(fmt.Sprintf("(= (= (iface_tag %s) 0) %s)", errv, ok))
	return Val{Tuple: []Val{{T: re, Typ: res.At(0).Type()}, {T: errv, Typ: res.At(1).Type()}}, Typ: res}, pc
}

// strconv.Quote(s) — assumed: returns a string of at least two bytes (the quotes); never panics.
func intrStrconvQuote(f *Frame, callee *ssa.Function, args []Val, pc string, st *State, ins ssa.Value) (Val, string) {
	vc := f.vc
	r := vc.freshConst("quoted", "Str")
	vc.assert(fmt.Sprintf("(>= (slen %s) 2)", r))
	return Val{T: r, Typ: callee.Signature.Results().At(0).Type()}, pc
}

// onceComp names the ghost component holding the "done" flag of a sync.Once embedded at a field path of
// a heap object; the key is the reference of the enclosing object.
func onceComp(l *Loc) (comp string, key string, ok bool) {
	var path []string
	for l != nil {
		switch l.Kind {
		case LocField:
			sty, name, _ := structOf(l.Base.Typ)
			path = append([]string{name + "." + sty.Field(l.Field).Name()}, path...)
			l = l.Base
		case LocRef:
			if len(path) == 0 {
				return "Once.done *", l.Ref, true
			}
			return "Once.done " + strings.Join(path, "/"), l.Ref, true
		default:
			return "", "", false
		}
	}
	return "", "", false
}

// (*sync.Once).Do(f) in the sequential model: if the Once has not fired, mark it and call f.
func intrOnceDo(f *Frame, callee *ssa.Function, args []Val, pc string, st *State, ins ssa.Value) (Val, string) {
	vc := f.vc
	if args[0].Loc == nil {
		unsup("sync.Once.Do on a Once that is not a field of a heap object")
	}
	comp, key, ok := onceComp(args[0].Loc)
	if !ok {
		unsup("sync.Once.Do: unsupported location of the Once")
	}
	c := vc.comp(st, comp, "(Array Int Bool)")
	done := vc.define("once.done", "Bool", fmt.Sprintf("(select %s %s)", c, key))
	// not yet fired: set the flag, run f
	bst := st.clone()
	f.noteCompSt(bst, comp)
	bst.heap[comp] = vc.define("h", "(Array Int Bool)", fmt.Sprintf("(store %s %s true)", c, key))
	bpc := vc.define("pc once", "Bool", and(pc, not(done)))
	fv := args[1]
	sig := fv.Typ.Underlying().(*types.Signature)
	cc := &ssa.CallCommon{Value: nil}
	_ = cc
	_, npc := f.callFnValue(fv, sig, nil, bpc, bst, ins)
	skip := vc.define("pc once.skip", "Bool", and(pc, done))
	merged := vc.mergeStates([]string{npc, skip}, []*State{bst, st.clone()})
	*st = *merged
	return Val{}, vc.define("pc once.join", "Bool", or(npc, skip))
}

// fresh string result, no panic, no heap effect (fmt.Sprintf, strconv.Itoa, ...): the text is not modelled
func intrFreshString(f *Frame, callee *ssa.Function, args []Val, pc string, st *State, ins ssa.Value) (Val, string) {
	return Val{T: f.vc.freshConst("extstr", "Str"), Typ: callee.Signature.Results().At(0).Type()}, pc
}

// strconv.FormatUint(v, 10): the canonical decimal rendering decimal_of(v) (uninterpreted)
func intrFormatUint(f *Frame, callee *ssa.Function, args []Val, pc string, st *State, ins ssa.Value) (Val, string) {
	return Val{T: f.vc.define("dec", "Str", fmt.Sprintf("(decimal_of %s)", args[0].T)), Typ: callee.Signature.Results().At(0).Type()}, pc
}

// strings.Repeat(s, count): panics on a negative count (obligation); result has len(s)*count bytes
func intrStringsRepeat(f *Frame, callee *ssa.Function, args []Val, pc string, st *State, ins ssa.Value) (Val, string) {
	vc := f.vc
	f.safe(pc, "repeat", posOf(ins, f), fmt.Sprintf("(>= %s 0)", args[1].T), "strings.Repeat: count is not negative")
	r := vc.freshConst("rep", "Str")
	return Val{T: r, Typ: callee.Signature.Results().At(0).Type()}, pc
}

// utf8.DecodeRune(p) (rune, size): assumed panic-free, size in 0..4, rune in the int32 range
func intrDecodeRune(f *Frame, callee *ssa.Function, args []Val, pc string, st *State, ins ssa.Value) (Val, string) {
	vc := f.vc
	res := callee.Signature.Results()
	r := vc.freshConst("rune", "Int")
	sz := vc.freshConst("runesize", "Int")
	vc.assert(fmt.Sprintf("(and (<= 0 %s) (<= %s 1114111) (<= 0 %s) (<= %s 4))", r, r, sz, sz))
	return Val{Tuple: []Val{{T: r, Typ: res.At(0).Type()}, {T: sz, Typ: res.At(1).Type()}}, Typ: res}, pc
}
