package main

// Assumed contracts of functions outside the verified code (standard library, formatting).
// Every use is recorded in vc.assumed and echoed into the evidence.

import (
	"fmt"
	"go/types"
	"strings"

	"golang.org/x/tools/go/ssa"
)

type intrinsic func(f *Frame, callee *ssa.Function, args []Val, pc string, st *State, ins ssa.Value) (Val, string)

var intrinsics map[string]intrinsic
var intrinsicWrites = map[string][]string{}

func init() {
	intrinsics = map[string]intrinsic{
		"(" + modPrefix + "errs.Code).F": intrCodeF,
		// sequential model: locks are no-ops (assumption: no other goroutine touches the state)
		"regexp.Compile":              intrRegexpCompile,
		"encoding/json.Marshal":       intrJSONMarshal,
		"(*sync.Pool).Get":            intrPoolGet,
		"(*sync.Pool).Put":            intrPoolPut,
		"bytes.NewBuffer":             intrNewBuffer,
		"bytes.Trim":                  intrBytesSubslice,
		"bytes.TrimSpace":             intrBytesSubslice,
		"bytes.TrimLeft":              intrBytesSubslice,
		"bytes.TrimRight":             intrBytesSubslice,
		"bytes.TrimPrefix":            intrBytesSubslice,
		"bytes.TrimSuffix":            intrBytesSubslice,
		"(*bytes.Buffer).Reset":       intrBufReset,
		"(*bytes.Buffer).Len":         intrBufLen,
		"(*bytes.Buffer).Bytes":       intrBufBytes,
		"(*bytes.Buffer).String":      intrBufString,
		"(*bytes.Buffer).Write":       intrBufWrite,
		"(*bytes.Buffer).WriteByte":   intrBufWrite,
		"(*bytes.Buffer).WriteString": intrBufWrite,
		"(*bytes.Buffer).WriteRune":   intrBufWrite,
		"(*sync.Once).Do":             intrOnceDo,
		"strconv.Quote":               intrStrconvQuote,
		"errors.New":                  intrErrorsNew,
		"errors.Is":                   intrErrorsIs,
		"strings.Count":               intrStringsCount,
		"strings.Contains":            intrStringsContains,
		"unicode/utf8.DecodeRune":     intrDecodeRune,
		"unicode/utf8.EncodeRune":     intrEncodeRune,
		"unicode/utf16.IsSurrogate":   intrIsSurrogate,
		"unicode/utf16.DecodeRune":    intrUtf16DecodeRune,
		"strconv.Itoa":                intrFormatUint,
		"strconv.FormatUint":          intrFormatUint,
		"strconv.FormatInt":           intrFreshString,
		"strconv.FormatBool":          intrFreshString,
		"fmt.Sprintf":                 intrFreshString,
		"strings.Repeat":              intrStringsRepeat,
		"strings.Join":                intrFreshString,
		"(*sync.RWMutex).Lock":        intrNoop,
		"(*sync.RWMutex).Unlock":      intrNoop,
		"(*sync.RWMutex).RLock":       intrNoop,
		"(*sync.RWMutex).RUnlock":     intrNoop,
		"(*sync.Mutex).Lock":          intrNoop,
		"(*sync.Mutex).Unlock":        intrNoop,
	}
	intrinsicWrites["("+modPrefix+"errs.Code).F"] = []string{"F errs.Err.Code_", "F errs.Err.message"}
}

// (errs.Code).F(args...) *Err — assumed: returns a fresh non-nil *Err carrying the code; does not panic
// (the placeholder-count check of errs.f is the subject of C16-H4, not of the callers).
func intrCodeF(f *Frame, callee *ssa.Function, args []Val, pc string, st *State, ins ssa.Value) (Val, string) {
	vc := f.vc
	rt := callee.Signature.Results().At(0).Type() // *errs.Err
	et := rt.(*types.Pointer).Elem()
	r := f.newRef(st, "Err")
	l := &Loc{Kind: LocRef, Ref: r, Typ: et}
	sty, name, _ := structOf(et)
	vc.structSort(name, sty)
	msg := vc.freshConst("errmsg", "Str")
	f.store(l, fmt.Sprintf("(%s %s %s)", q("mk "+name), args[0].T, msg), st, pc, posOf(ins, f))
	return Val{T: r, Typ: rt}, pc
}

func intrNoop(f *Frame, callee *ssa.Function, args []Val, pc string, st *State, ins ssa.Value) (Val, string) {
	return Val{}, pc
}

// regexp.Compile(expr) — assumed: succeeds exactly when validRE(expr) (uninterpreted); returns a fresh
// non-nil *Regexp on success and nil with a non-nil error otherwise; never panics.
func intrRegexpCompile(f *Frame, callee *ssa.Function, args []Val, pc string, st *State, ins ssa.Value) (Val, string) {
	vc := f.vc
	res := callee.Signature.Results()
	ok := vc.define("validRE", "Bool", fmt.Sprintf("(validRE %s)", args[0].T))
	r := f.newRef(st, "Regexp")
	re := vc.define("re", "Int", fmt.Sprintf("(ite %s %s 0)", ok, r))
	errv := vc.freshConst("reerr", "Iface")
	vc.assert(fmt.Sprintf("(= (= (iface_tag %s) 0) %s)", errv, ok))
	return Val{Tuple: []Val{{T: re, Typ: res.At(0).Type()}, {T: errv, Typ: res.At(1).Type()}}, Typ: res}, pc
}

// strconv.Quote(s) — assumed: returns a string of at least two bytes (the quotes); never panics.
func intrStrconvQuote(f *Frame, callee *ssa.Function, args []Val, pc string, st *State, ins ssa.Value) (Val, string) {
	vc := f.vc
	r := vc.freshConst("quoted", "Str")
	vc.assert(fmt.Sprintf("(>= (slen %s) 2)", r))
	return Val{T: r, Typ: callee.Signature.Results().At(0).Type()}, pc
}

// onceComp names the ghost component holding the "done" flag of a sync.Once embedded at a field path of
// a heap object; the key is the reference of the enclosing object.
func onceComp(l *Loc) (comp string, key string, ok bool) {
	var path []string
	for l != nil {
		switch l.Kind {
		case LocField:
			sty, name, _ := structOf(l.Base.Typ)
			path = append([]string{name + "." + sty.Field(l.Field).Name()}, path...)
			l = l.Base
		case LocRef:
			if len(path) == 0 {
				return "Once.done *", l.Ref, true
			}
			return "Once.done " + strings.Join(path, "/"), l.Ref, true
		default:
			return "", "", false
		}
	}
	return "", "", false
}

// (*sync.Once).Do(f) in the sequential model: if the Once has not fired, mark it and call f.
func intrOnceDo(f *Frame, callee *ssa.Function, args []Val, pc string, st *State, ins ssa.Value) (Val, string) {
	vc := f.vc
	if args[0].Loc == nil {
		unsup("sync.Once.Do on a Once that is not a field of a heap object")
	}
	comp, key, ok := onceComp(args[0].Loc)
	if !ok {
		unsup("sync.Once.Do: unsupported location of the Once")
	}
	c := vc.comp(st, comp, "(Array Int Bool)")
	done := vc.define("once.done", "Bool", fmt.Sprintf("(select %s %s)", c, key))
	// not yet fired: set the flag, run f
	bst := st.clone()
	f.noteCompSt(bst, comp)
	bst.heap[comp] = vc.define("h", "(Array Int Bool)", fmt.Sprintf("(store %s %s true)", c, key))
	bpc := vc.define("pc once", "Bool", and(pc, not(done)))
	fv := args[1]
	sig := fv.Typ.Underlying().(*types.Signature)
	cc := &ssa.CallCommon{Value: nil}
	_ = cc
	_, npc := f.callFnValue(fv, sig, nil, bpc, bst, ins)
	skip := vc.define("pc once.skip", "Bool", and(pc, done))
	merged := vc.mergeStates([]string{npc, skip}, []*State{bst, st.clone()})
	*st = *merged
	return Val{}, vc.define("pc once.join", "Bool", or(npc, skip))
}

// fresh string result, no panic, no heap effect (fmt.Sprintf, strconv.Itoa, ...): the text is not modelled
func intrFreshString(f *Frame, callee *ssa.Function, args []Val, pc string, st *State, ins ssa.Value) (Val, string) {
	return Val{T: f.vc.freshConst("extstr", "Str"), Typ: callee.Signature.Results().At(0).Type()}, pc
}

// strconv.FormatUint(v, 10): the canonical decimal rendering decimal_of(v) (uninterpreted)
func intrFormatUint(f *Frame, callee *ssa.Function, args []Val, pc string, st *State, ins ssa.Value) (Val, string) {
	if len(args) > 1 && args[1].T != "10" {
		return intrFreshString(f, callee, args, pc, st, ins)
	}
	return Val{T: f.vc.define("dec", "Str", fmt.Sprintf("(decimal_of %s)", args[0].T)), Typ: callee.Signature.Results().At(0).Type()}, pc
}

// strings.Repeat(s, count): panics on a negative count (obligation); result has len(s)*count bytes
func intrStringsRepeat(f *Frame, callee *ssa.Function, args []Val, pc string, st *State, ins ssa.Value) (Val, string) {
	vc := f.vc
	f.safe(pc, "repeat", posOf(ins, f), fmt.Sprintf("(>= %s 0)", args[1].T), "strings.Repeat: count is not negative")
	r := vc.freshConst("rep", "Str")
	return Val{T: r, Typ: callee.Signature.Results().At(0).Type()}, pc
}

// errors.New(text): a non-nil error value (fresh), no effect, no panic
func intrErrorsNew(f *Frame, callee *ssa.Function, args []Val, pc string, st *State, ins ssa.Value) (Val, string) {
	e := f.vc.freshConst("newerr", "Iface")
	f.vc.assert(fmt.Sprintf("(not (= (iface_tag %s) 0))", e))
	return Val{T: e, Typ: callee.Signature.Results().At(0).Type()}, pc
}

// bytes.Trim & co: assumed pure and panic-free; the result is nil or a sub-slice of the first argument
func intrBytesSubslice(f *Frame, callee *ssa.Function, args []Val, pc string, st *State, ins ssa.Value) (Val, string) {
	vc := f.vc
	rt := callee.Signature.Results().At(0).Type()
	r := vc.freshConst("trimmed", "Slice")
	s := args[0].T
	vc.assert(vc.typed(r, rt, 1))
	vc.assert(fmt.Sprintf("(or (and (= (arr %s) 0) (= (len %s) 0)) (and (= (arr %s) (arr %s)) (>= (off %s) (off %s)) (<= (+ (off %s) (len %s)) (+ (off %s) (len %s)))))", r, r, r, s, r, s, r, r, s, s))
	return Val{T: r, Typ: rt}, pc
}

// utf8.DecodeRune(p) (rune, size): assumed panic-free, size in 0..4, rune in the int32 range
func intrDecodeRune(f *Frame, callee *ssa.Function, args []Val, pc string, st *State, ins ssa.Value) (Val, string) {
	vc := f.vc
	res := callee.Signature.Results()
	r := vc.freshConst("rune", "Int")
	sz := vc.freshConst("runesize", "Int")
	vc.assert(fmt.Sprintf("(and (<= 0 %s) (<= %s 1114111) (<= 0 %s) (<= %s 4))", r, r, sz, sz))
	// documented: (RuneError, 0) for empty input, otherwise 1 <= size <= len(p)
	p := args[0].T
	vc.assert(fmt.Sprintf("(and (<= %s (len %s)) (=> (> (len %s) 0) (>= %s 1)))", sz, p, p, sz))
	return Val{Tuple: []Val{{T: r, Typ: res.At(0).Type()}, {T: sz, Typ: res.At(1).Type()}}, Typ: res}, pc
}

// utf8.EncodeRune(p, r) int: writes 1..4 bytes at the beginning of p and returns their number; it panics
// when p is too short for the encoding: the obligation asks for the conservative len(p) >= 4.
func intrEncodeRune(f *Frame, callee *ssa.Function, args []Val, pc string, st *State, ins ssa.Value) (Val, string) {
	vc := f.vc
	p := args[0].T
	f.safe(pc, "encoderune", posOf(ins, f), fmt.Sprintf("(>= (len %s) 4)", p), "utf8.EncodeRune: room for four bytes")
	n := vc.freshConst("runelen", "Int")
	vc.assert(fmt.Sprintf("(and (<= 1 %s) (<= %s 4))", n, n))
	et := types.Typ[types.Uint8]
	cn := elemComp(et)
	E := vc.comp(st, cn, vc.elemCompSort(et), et)
	f.noteCompSt(st, cn)
	// the first four bytes of p may change
	na := vc.freshConst("encoded", "(Array Int Int)")
	vc.assert(fmt.Sprintf("(forall ((i Int)) (! (=> (or (< i (off %s)) (>= i (+ (off %s) 4))) (= (select %s i) (select (select %s (arr %s)) i))) :pattern ((select %s i))))", p, p, na, E, p, na))
	vc.assert(fmt.Sprintf("(forall ((i Int)) (! (and (<= 0 (select %s i)) (<= (select %s i) 255)) :pattern ((select %s i))))", na, na, na))
	st.heap[cn] = vc.define("h", vc.compSorts[cn], fmt.Sprintf("(store %s (arr %s) %s)", E, p, na))
	return Val{T: n, Typ: callee.Signature.Results().At(0).Type()}, pc
}

// errors.Is: assumed to have no effect and not to panic; its verdict is an arbitrary boolean (the error types of this
// module define no Is method, so it is identity/unwrap comparison; nothing is relied upon except the absence of effects)
func intrErrorsIs(f *Frame, callee *ssa.Function, args []Val, pc string, st *State, ins ssa.Value) (Val, string) {
	return Val{T: f.vc.freshConst("errorsIs", "Bool"), Typ: callee.Signature.Results().At(0).Type()}, pc
}

// strings.Count(s, sub): the uninterpreted strcount(s, sub) >= 0; no effect, no panic
func intrStringsCount(f *Frame, callee *ssa.Function, args []Val, pc string, st *State, ins ssa.Value) (Val, string) {
	n := f.vc.define("strcount", "Int", fmt.Sprintf("(strcount %s %s)", args[0].T, args[1].T))
	f.vc.assert(fmt.Sprintf("(>= %s 0)", n))
	return Val{T: n, Typ: callee.Signature.Results().At(0).Type()}, pc
}

// strings.Contains(s, sub) == (strings.Count(s, sub) > 0) for a non-empty sub (an arbitrary boolean otherwise)
func intrStringsContains(f *Frame, callee *ssa.Function, args []Val, pc string, st *State, ins ssa.Value) (Val, string) {
	b := f.vc.freshConst("contains", "Bool")
	f.vc.assert(fmt.Sprintf("(=> (> (slen %s) 0) (= %s (> (strcount %s %s) 0)))", args[1].T, b, args[0].T, args[1].T))
	return Val{T: b, Typ: callee.Signature.Results().At(0).Type()}, pc
}

func intrIsSurrogate(f *Frame, callee *ssa.Function, args []Val, pc string, st *State, ins ssa.Value) (Val, string) {
	r := args[0].T
	return Val{T: f.vc.define("surr", "Bool", fmt.Sprintf("(and (<= 55296 %s) (< %s 57344))", r, r)), Typ: callee.Signature.Results().At(0).Type()}, pc
}

func intrUtf16DecodeRune(f *Frame, callee *ssa.Function, args []Val, pc string, st *State, ins ssa.Value) (Val, string) {
	r := f.vc.freshConst("rune", "Int")
	f.vc.assert(fmt.Sprintf("(and (<= 0 %s) (<= %s 1114111))", r, r))
	// documented: U+FFFD unless (r1, r2) is a valid surrogate pair
	f.vc.assert(fmt.Sprintf("(=> (not (= %s 65533)) (and (<= 55296 %s) (< %s 56320) (<= 56320 %s) (< %s 57344)))", r, args[0].T, args[0].T, args[1].T, args[1].T))
	return Val{T: r, Typ: callee.Signature.Results().At(0).Type()}, pc
}

// ---- sync.Pool and bytes.Buffer: ownership model for C10 -------------------------------------------------
// Ghost components (all monotone: they only ever gain freshly allocated members):
//   "Pool.bufs"   (Array Int Bool): the *bytes.Buffer belongs to the pool subsystem (came out of a sync.Pool);
//   "Pool.arrays" (Array Int Bool): the byte array is (or was) the backing array of such a buffer;
//   "Buf.arr"     (Array Int Int) : identity of the current backing array of a *bytes.Buffer.
// Global invariant (assumed of the entry state, re-established by every operation below):
//   a pool buffer's backing array is nil or a pool array; pool arrays and pool buffers are allocated objects.
// Assumed: Pool.Get returns a *bytes.Buffer of the subsystem; Buffer writes keep the backing array or move
// to a fresh one; Bytes() aliases the backing array; none of them panics (memory is unbounded).

const poolBufsComp = "Pool.bufs"
const poolArraysComp = "Pool.arrays"
const bufArrComp = "Buf.arr"

// "Pool.held" (Array Int Bool): the buffer is checked out (Get without a Put yet) by the function under verification
const poolHeldComp = "Pool.held"

// ghost: kind of the last write to the *bytes.Buffer: 1 = WriteByte(',') (a separator is pending), 2 = WriteByte of an
// opening bracket, 0 = anything else (also right after Reset)
const bufSepComp = "Buf.sep"

func bufferPtrType(f *Frame) types.Type {
	for _, pk := range f.vc.prog.prog.AllPackages() {
		if pk.Pkg.Path() == "bytes" {
			return types.NewPointer(pk.Pkg.Scope().Lookup("Buffer").Type())
		}
	}
	unsup("package bytes not loaded")
	return nil
}

// poolComps returns the current terms of the three components, declaring them (with the global invariant
// on their entry versions) on first use.
func (vc *VC) poolComps(st *State) (bufs, arrays, ba string) {
	first := !vc.declared[q("H0 "+bufArrComp)]
	ba = vc.comp(st, bufArrComp, "(Array Int Int)")
	bufs = vc.comp(st, poolBufsComp, "(Array Int Bool)")
	arrays = vc.comp(st, poolArraysComp, "(Array Int Bool)")
	if first {
		vc.poolWF(q("H0 "+poolBufsComp), q("H0 "+poolArraysComp), q("H0 "+bufArrComp), q("alloc0"))
	}
	return
}

func (vc *VC) bufArr(st *State) string {
	_, _, ba := vc.poolComps(st)
	return ba
}

func (vc *VC) poolWF(bufs, arrays, ba, alloc string) {
	vc.assert(fmt.Sprintf("(forall ((b Int)) (! (and (<= 0 (select %s b)) (< (select %s b) %s) (=> (select %s b) (and (< b %s) (or (= (select %s b) 0) (select %s (select %s b)))))) :pattern ((select %s b))))", ba, ba, alloc, bufs, alloc, ba, arrays, ba, ba))
	vc.assert(fmt.Sprintf("(forall ((r Int)) (! (=> (select %s r) (and (< 0 r) (< r %s))) :pattern ((select %s r))))", arrays, alloc, arrays))
}

// isBufferPool: the receiver is the pool field of an internal/sync.BufferPool (whose New makes
// *bytes.Buffer values); any other sync.Pool is modelled generically (Get returns an unknown value).
func isBufferPool(v Val) bool {
	if v.Loc == nil || v.Loc.Kind != LocField || v.Loc.Base == nil {
		return false
	}
	return strings.HasSuffix(typeName(v.Loc.Base.Typ), "internal/sync.BufferPool")
}

func intrPoolGet(f *Frame, callee *ssa.Function, args []Val, pc string, st *State, ins ssa.Value) (Val, string) {
	vc := f.vc
	if !isBufferPool(args[0]) {
		return Val{T: vc.freshConst("poolget", "Iface"), Typ: callee.Signature.Results().At(0).Type()}, pc
	}
	bufs, arrays, ba := vc.poolComps(st)
	// the buffer is an existing pool buffer or a new one with a new backing array
	r := vc.freshConst("pooled", "Int")
	farr := vc.freshConst("pool.arr", "Int")
	na := vc.freshConst("alloc", "Int")
	isNew := vc.define("pool.new", "Bool", fmt.Sprintf("(>= %s %s)", r, st.alloc))
	vc.assert(fmt.Sprintf("(and (>= %s 1) (or %s (select %s %s)) (> %s %s) (< %s %s) (>= %s %s) (> %s %s))", r, isNew, bufs, r, farr, r, farr, na, na, st.alloc, na, r))
	st.alloc = na
	for _, k := range []string{poolBufsComp, poolArraysComp, bufArrComp} {
		f.noteCompSt(st, k)
	}
	st.heap[poolBufsComp] = vc.define("h", "(Array Int Bool)", fmt.Sprintf("(store %s %s true)", bufs, r))
	st.heap[bufArrComp] = vc.define("h", "(Array Int Int)", fmt.Sprintf("(store %s %s (ite %s %s (select %s %s)))", ba, r, isNew, farr, ba, r))
	st.heap[poolArraysComp] = vc.define("h", "(Array Int Bool)", fmt.Sprintf("(store %s %s (or %s (select %s %s)))", arrays, farr, isNew, arrays, farr))
	vc.poolWF(st.heap[poolBufsComp], st.heap[poolArraysComp], st.heap[bufArrComp], na)
	held := vc.comp(st, poolHeldComp, "(Array Int Bool)")
	f.noteCompSt(st, poolHeldComp)
	// a buffer handed out by the pool is not one this function already holds (it would have been put back first)
	vc.assert(fmt.Sprintf("(not (select %s %s))", held, r))
	st.heap[poolHeldComp] = vc.define("h", "(Array Int Bool)", fmt.Sprintf("(store %s %s true)", held, r))
	vc.nonNil[r] = true
	bt := bufferPtrType(f)
	return Val{T: f.box(Val{T: r, Typ: bt}, bt), Typ: callee.Signature.Results().At(0).Type()}, pc
}

func intrPoolPut(f *Frame, callee *ssa.Function, args []Val, pc string, st *State, ins ssa.Value) (Val, string) {
	vc := f.vc
	if !isBufferPool(args[0]) {
		return Val{}, pc
	}
	bufs, _, _ := vc.poolComps(st)
	bt := bufferPtrType(f)
	_, unbox := vc.boxFns(bt)
	// only buffers that came out of a pool go back into one (otherwise a caller-owned array would join
	// the subsystem)
	f.must(pc, "poolput", posOf(ins, f), fmt.Sprintf("(select %s (%s %s))", bufs, unbox, args[1].T), "the buffer put into the pool came out of a pool")
	// ... and is still checked out: putting it back twice would make the pool hand the same buffer to two users
	held := vc.comp(st, poolHeldComp, "(Array Int Bool)")
	f.must(pc, "poolput-once", posOf(ins, f), fmt.Sprintf("(select %s (%s %s))", held, unbox, args[1].T), "the buffer put into the pool is checked out by this function (not put back twice)")
	f.noteCompSt(st, poolHeldComp)
	st.heap[poolHeldComp] = vc.define("h", "(Array Int Bool)", fmt.Sprintf("(store %s (%s %s) false)", held, unbox, args[1].T))
	return Val{}, pc
}

func intrNewBuffer(f *Frame, callee *ssa.Function, args []Val, pc string, st *State, ins ssa.Value) (Val, string) {
	vc := f.vc
	_, _, ba := vc.poolComps(st)
	r := f.newRef(st, "Buffer")
	f.noteCompSt(st, bufArrComp)
	st.heap[bufArrComp] = vc.define("h", "(Array Int Int)", fmt.Sprintf("(store %s %s (arr %s))", ba, r, args[0].T))
	return Val{T: r, Typ: callee.Signature.Results().At(0).Type()}, pc
}

func bufRecv(f *Frame, args []Val, pc string, ins ssa.Value) string {
	b := f.ptrTerm(args[0])
	f.nilCheck(b, pc, posOf(ins, f))
	return b
}

func intrBufNoGrow(f *Frame, callee *ssa.Function, args []Val, pc string, st *State, ins ssa.Value) (Val, string) {
	bufRecv(f, args, pc, ins)
	return Val{}, pc
}

func intrBufReset(f *Frame, callee *ssa.Function, args []Val, pc string, st *State, ins ssa.Value) (Val, string) {
	vc := f.vc
	b := bufRecv(f, args, pc, ins)
	sep := vc.comp(st, bufSepComp, "(Array Int Int)")
	f.noteCompSt(st, bufSepComp)
	st.heap[bufSepComp] = vc.define("h", "(Array Int Int)", fmt.Sprintf("(store %s %s 0)", sep, b))
	return Val{}, pc
}

func intrBufLen(f *Frame, callee *ssa.Function, args []Val, pc string, st *State, ins ssa.Value) (Val, string) {
	bufRecv(f, args, pc, ins)
	n := f.vc.freshConst("buflen", "Int")
	f.vc.assert(fmt.Sprintf("(and (<= 0 %s) (<= %s 281474976710656))", n, n))
	return Val{T: n, Typ: callee.Signature.Results().At(0).Type()}, pc
}

func intrBufString(f *Frame, callee *ssa.Function, args []Val, pc string, st *State, ins ssa.Value) (Val, string) {
	bufRecv(f, args, pc, ins)
	return Val{T: f.vc.freshConst("bufstr", "Str"), Typ: callee.Signature.Results().At(0).Type()}, pc
}

func intrBufBytes(f *Frame, callee *ssa.Function, args []Val, pc string, st *State, ins ssa.Value) (Val, string) {
	vc := f.vc
	b := bufRecv(f, args, pc, ins)
	ba := vc.bufArr(st)
	rt := callee.Signature.Results().At(0).Type()
	sl := vc.freshConst("bufbytes", "Slice")
	vc.assert(vc.typed(sl, rt, 1))
	vc.assert(fmt.Sprintf("(= (arr %s) (select %s %s))", sl, ba, b))
	return Val{T: sl, Typ: rt}, pc
}

func intrBufWrite(f *Frame, callee *ssa.Function, args []Val, pc string, st *State, ins ssa.Value) (Val, string) {
	vc := f.vc
	b := bufRecv(f, args, pc, ins)
	bufs, arrays, ba := vc.poolComps(st)
	fresh := f.newRef(st, "bufgrow")
	na := vc.freshConst("bufarr", "Int")
	vc.assert(fmt.Sprintf("(or (and (= %s (select %s %s)) (not (= %s 0))) (= %s %s))", na, ba, b, na, na, fresh))
	for _, k := range []string{poolArraysComp, bufArrComp} {
		f.noteCompSt(st, k)
	}
	st.heap[bufArrComp] = vc.define("h", "(Array Int Int)", fmt.Sprintf("(store %s %s %s)", ba, b, na))
	st.heap[poolArraysComp] = vc.define("h", "(Array Int Bool)", fmt.Sprintf("(store %s %s (or (select %s %s) (select %s %s)))", arrays, na, bufs, b, arrays, na))
	vc.poolWF(bufs, st.heap[poolArraysComp], st.heap[bufArrComp], st.alloc)
	// the content of the backing array changes
	et := types.Typ[types.Uint8]
	cn := elemComp(et)
	E := vc.comp(st, cn, vc.elemCompSort(et), et)
	f.noteCompSt(st, cn)
	st.heap[cn] = vc.define("h", vc.compSorts[cn], fmt.Sprintf("(store %s %s %s)", E, na, vc.freshConst("bufcontent", "(Array Int Int)")))
	// ghost: is a separator pending? (set by WriteByte(','), cleared by every other write)
	sep := vc.comp(st, bufSepComp, "(Array Int Int)")
	f.noteCompSt(st, bufSepComp)
	sepv := "0"
	if callee.Name() == "WriteByte" && len(args) == 2 {
		c := f.termOf(args[1])
		sepv = fmt.Sprintf("(ite (= %s 44) 1 (ite (or (= %s 123) (= %s 91)) 2 0))", c, c, c)
	}
	st.heap[bufSepComp] = vc.define("h", "(Array Int Int)", fmt.Sprintf("(store %s %s %s)", sep, b, sepv))
	res := callee.Signature.Results()
	switch res.Len() {
	case 1: // WriteByte: error (always nil)
		return Val{T: "nil_iface", Typ: res.At(0).Type()}, pc
	case 2: // (n int, err error)
		n := vc.freshConst("written", "Int")
		vc.assert(fmt.Sprintf("(and (<= 0 %s) (<= %s 281474976710656))", n, n))
		return Val{Tuple: []Val{{T: n, Typ: res.At(0).Type()}, {T: "nil_iface", Typ: res.At(1).Type()}}, Typ: res}, pc
	}
	return Val{}, pc
}

// poolHavoc: an unknown computation that may use pools: the subsystem gains only freshly allocated buffers
// and arrays; byte arrays outside the subsystem keep their content.
func (f *Frame) poolHavoc(st *State) {
	vc := f.vc
	bufs, arrays, _ := vc.poolComps(st)
	et := types.Typ[types.Uint8]
	ek := elemComp(et)
	E := vc.comp(st, ek, vc.elemCompSort(et), et)
	preAlloc := st.alloc
	na := vc.freshConst("alloc", "Int")
	vc.assert(fmt.Sprintf("(>= %s %s)", na, st.alloc))
	st.alloc = na
	bufs2 := vc.freshConst("post "+poolBufsComp, "(Array Int Bool)")
	arrays2 := vc.freshConst("post "+poolArraysComp, "(Array Int Bool)")
	ba2 := vc.freshConst("post "+bufArrComp, "(Array Int Int)")
	E2 := vc.freshConst("post "+ek, vc.compSorts[ek])
	vc.assert(fmt.Sprintf("(forall ((b Int)) (! (=> (< b %s) (= (select %s b) (select %s b))) :pattern ((select %s b))))", preAlloc, bufs2, bufs, bufs2))
	vc.assert(fmt.Sprintf("(forall ((r Int)) (! (=> (< r %s) (= (select %s r) (select %s r))) :pattern ((select %s r))))", preAlloc, arrays2, arrays, arrays2))
	vc.assert(fmt.Sprintf("(forall ((r Int)) (! (=> (and (< r %s) (not (select %s r))) (= (select %s r) (select %s r))) :pattern ((select %s r))))", preAlloc, arrays, E2, E, E2))
	for _, k := range []string{poolBufsComp, poolArraysComp, bufArrComp, ek} {
		f.noteCompSt(st, k)
	}
	st.heap[poolBufsComp] = bufs2
	st.heap[poolArraysComp] = arrays2
	st.heap[bufArrComp] = ba2
	st.heap[ek] = E2
	vc.poolWF(bufs2, arrays2, ba2, na)
	vc.assertCompWF(E2, ek, na)
}

// encoding/json.Marshal(v): assumed to return a freshly allocated byte slice (or an error) and to behave
// like poolHavoc with respect to pools (nested MarshalJSON methods of this module use the buffer pools).
func intrJSONMarshal(f *Frame, callee *ssa.Function, args []Val, pc string, st *State, ins ssa.Value) (Val, string) {
	vc := f.vc
	res := callee.Signature.Results()
	f.poolHavoc(st)
	sl := vc.freshConst("marshalled", "Slice")
	vc.assert(vc.typed(sl, res.At(0).Type(), 1))
	id := f.newRef(st, "marshal")
	vc.assert(fmt.Sprintf("(or (= (arr %s) 0) (= (arr %s) %s))", sl, sl, id))
	errv := vc.freshConst("marshalerr", "Iface")
	return Val{Tuple: []Val{{T: sl, Typ: res.At(0).Type()}, {T: errv, Typ: res.At(1).Type()}}, Typ: res}, pc
}

// poolArrayAt: array id r belongs to the pool subsystem in state st
func (vc *VC) poolArrayAt(st *State, r string) string {
	_, arrays, _ := vc.poolComps(st)
	return fmt.Sprintf("(select %s %s)", arrays, r)
}
