package main

// Assumed contracts of functions outside the verified code (standard library, formatting).
// Every use is recorded in vc.assumed and echoed into the evidence.

import (
	"fmt"
	"go/types"

	"golang.org/x/tools/go/ssa"
)

type intrinsic func(f *Frame, callee *ssa.Function, args []Val, pc string, st *State, ins ssa.Value) (Val, string)

var intrinsics map[string]intrinsic
var intrinsicWrites = map[string][]string{}

func init() {
	intrinsics = map[string]intrinsic{
		"(" + modPrefix + "errs.Code).F": intrCodeF,
		// sequential model: locks are no-ops (assumption: no other goroutine touches the state)
		"(*sync.RWMutex).Lock":    intrNoop,
		"(*sync.RWMutex).Unlock":  intrNoop,
		"(*sync.RWMutex).RLock":   intrNoop,
		"(*sync.RWMutex).RUnlock": intrNoop,
		"(*sync.Mutex).Lock":      intrNoop,
		"(*sync.Mutex).Unlock":    intrNoop,
	}
	intrinsicWrites["("+modPrefix+"errs.Code).F"] = []string{"F errs.Err.Code_", "F errs.Err.message"}
}

// (errs.Code).F(args...) *Err — assumed: returns a fresh non-nil *Err carrying the code; does not panic
// (the placeholder-count check of errs.f is the subject of C16-H4, not of the callers).
func intrCodeF(f *Frame, callee *ssa.Function, args []Val, pc string, st *State, ins ssa.Value) (Val, string) {
	vc := f.vc
	rt := callee.Signature.Results().At(0).Type() // *errs.Err
	et := rt.(*types.Pointer).Elem()
	r := f.newRef(st, "Err")
	l := &Loc{Kind: LocRef, Ref: r, Typ: et}
	sty, name, _ := structOf(et)
	vc.structSort(name, sty)
	msg := vc.freshConst("errmsg", "Str")
	f.store(l, fmt.Sprintf("(%s %s %s)", q("mk "+name), args[0].T, msg), st, pc, posOf(ins, f))
	return Val{T: r, Typ: rt}, pc
}

func intrNoop(f *Frame, callee *ssa.Function, args []Val, pc string, st *State, ins ssa.Value) (Val, string) {
	return Val{}, pc
}
