package main

// Obligations decided by evaluation over the constants of a package initialiser (finite tables): no SMT
// involved; reported with solver "const-eval".

import (
	"fmt"
	"go/constant"
	"sort"
	"strings"

	"golang.org/x/tools/go/ssa"
)

func staticObligations(p *Program, prop string) []*Obligation {
	var out []*Obligation
	if prop == "C16" || prop == "C09" {
		out = append(out, errorFormatVerbs(p)...)
	}
	return out
}

// errorFormatVerbs: no entry of errs.errorFormat uses a verb that prints a Go value's structure or an
// address (%w is not a Sprintf verb at all: it renders as %!w(type=value) with the value's fields dumped).
func errorFormatVerbs(p *Program) []*Obligation {
	pkg := p.pkgs[modPrefix+"errs"]
	name := "errs.errorFormat#table:no-struct-verbs"
	o := &Obligation{Name: name, Kind: "table", Fn: "errs (package initialiser)", Desc: "no format of errs.errorFormat contains %w, %v, %+v, %#v, %p or %T (messages never dump internal structures or addresses)", Solver: "const-eval"}
	if pkg == nil {
		o.Status = "error"
		o.RawOut = "package errs not found"
		return []*Obligation{o}
	}
	g, ok := pkg.Members["errorFormat"].(*ssa.Global)
	init := pkg.Func("init")
	if !ok || init == nil {
		o.Status = "error"
		o.RawOut = "errs.errorFormat not found"
		return []*Obligation{o}
	}
	o.Pos = p.fset.Position(g.Pos())
	// the map value stored into the global, and the constant strings assigned into it
	var mapVal ssa.Value
	for _, b := range init.Blocks {
		for _, in := range b.Instrs {
			if st, ok := in.(*ssa.Store); ok && st.Addr == ssa.Value(g) {
				mapVal = st.Val
			}
		}
	}
	n := 0
	var bad []string
	for _, b := range init.Blocks {
		for _, in := range b.Instrs {
			mu, ok := in.(*ssa.MapUpdate)
			if !ok || mu.Map != mapVal {
				continue
			}
			c, ok := mu.Value.(*ssa.Const)
			if !ok || c.Value == nil || c.Value.Kind() != constant.String {
				bad = append(bad, "non-constant format at "+p.fset.Position(mu.Pos()).String())
				continue
			}
			n++
			s := constant.StringVal(c.Value)
			for _, verb := range []string{"%w", "%v", "%+v", "%#v", "%p", "%T"} {
				if strings.Contains(s, verb) {
					bad = append(bad, fmt.Sprintf("%q uses %s", s, verb))
				}
			}
		}
	}
	if why := p.globalWrittenOutsideInit(g); why != "" {
		bad = append(bad, "table may be modified after initialisation: "+why)
	}
	sort.Strings(bad)
	if n == 0 {
		o.Status = "error"
		o.RawOut = "no constant entries found"
	} else if len(bad) == 0 {
		o.Status = "unsat"
		o.RawOut = fmt.Sprintf("%d formats evaluated", n)
	} else {
		o.Status = "sat"
		o.RawOut = strings.Join(bad, "\n")
		o.Model = o.RawOut
	}
	return []*Obligation{o}
}
