package main

// Obligations decided by evaluation over the constants of a package initialiser (finite tables): no SMT
// involved; reported with solver "const-eval".

import (
	"encoding/json"
	"fmt"
	"go/constant"
	"go/token"
	"go/types"
	"os"
	"path/filepath"
	"sort"
	"strings"

	"golang.org/x/tools/go/ssa"
)

func staticObligations(p *Program, prop, verif string) ([]*Obligation, []string) {
	var out []*Obligation
	var assumed []string
	if prop == "C16" || prop == "C09" {
		out = append(out, errorFormatVerbs(p)...)
	}
	if prop == "C16" {
		out = append(out, formatConstants(p)...)
		eo, as := errArgCounts(p)
		out = append(out, eo...)
		assumed = append(assumed, as...)
	}
	if prop == "C09" {
		mo, as := mapRangeObligations(p, verif)
		out = append(out, mo...)
		assumed = append(assumed, as...)
	}
	return out, assumed
}

// errorFormatVerbs: no entry of errs.errorFormat uses a verb that prints a Go value's structure or an
// address (%w is not a Sprintf verb at all: it renders as %!w(type=value) with the value's fields dumped).
func errorFormatVerbs(p *Program) []*Obligation {
	pkg := p.pkgs[modPrefix+"errs"]
	name := "errs.errorFormat#table:no-struct-verbs"
	o := &Obligation{Name: name, Kind: "table", Fn: "errs (package initialiser)", Desc: "no format of errs.errorFormat contains %w, %v, %+v, %#v, %p or %T (messages never dump internal structures or addresses)", Solver: "const-eval"}
	if pkg == nil {
		o.Status = "error"
		o.RawOut = "package errs not found"
		return []*Obligation{o}
	}
	g, ok := pkg.Members["errorFormat"].(*ssa.Global)
	init := pkg.Func("init")
	if !ok || init == nil {
		o.Status = "error"
		o.RawOut = "errs.errorFormat not found"
		return []*Obligation{o}
	}
	o.Pos = p.fset.Position(g.Pos())
	// the map value stored into the global, and the constant strings assigned into it
	var mapVal ssa.Value
	for _, b := range init.Blocks {
		for _, in := range b.Instrs {
			if st, ok := in.(*ssa.Store); ok && st.Addr == ssa.Value(g) {
				mapVal = st.Val
			}
		}
	}
	n := 0
	var bad []string
	for _, b := range init.Blocks {
		for _, in := range b.Instrs {
			mu, ok := in.(*ssa.MapUpdate)
			if !ok || mu.Map != mapVal {
				continue
			}
			c, ok := mu.Value.(*ssa.Const)
			if !ok || c.Value == nil || c.Value.Kind() != constant.String {
				bad = append(bad, "non-constant format at "+p.fset.Position(mu.Pos()).String())
				continue
			}
			n++
			s := constant.StringVal(c.Value)
			for _, verb := range []string{"%w", "%v", "%+v", "%#v", "%p", "%T"} {
				if strings.Contains(s, verb) {
					bad = append(bad, fmt.Sprintf("%q uses %s", s, verb))
				}
			}
		}
	}
	if why := p.globalWrittenOutsideInit(g); why != "" {
		bad = append(bad, "table may be modified after initialisation: "+why)
	}
	sort.Strings(bad)
	if n == 0 {
		o.Status = "error"
		o.RawOut = "no constant entries found"
	} else if len(bad) == 0 {
		o.Status = "unsat"
		o.RawOut = fmt.Sprintf("%d formats evaluated", n)
	} else {
		o.Status = "sat"
		o.RawOut = strings.Join(bad, "\n")
		o.Model = o.RawOut
	}
	return []*Obligation{o}
}

// ---- C09: iteration over Go maps -----------------------------------------------------------------------
// Every `range` over a map in non-test code of the module is an obligation "the iteration order cannot
// influence the result". It is discharged by the SHAPE of the loop where that is evident from the SSA
// (clear: only deletes; copy: only m2[k] = v with the range key; collect-sorted: only appends to a local
// slice and the function sorts afterwards; none of them leaves the loop early), otherwise it must be on the
// reviewed list /verif/spec/maprange_reviewed.json ("order-insensitive" with the invariant it relies on:
// an assumption listed in the evidence, or "order-dependent": a violation unless recorded as a finding).
// A new map range anywhere in the module therefore fails its obligation until somebody looks at it.

type mapRangeSite struct {
	fn    *ssa.Function
	ord   int
	pos   token.Position
	shape string // "", "clear", "copy", "collect-sorted"
	why   string
}

func (s mapRangeSite) name() string { return fmt.Sprintf("%s#maprange:%d", shortFn(s.fn), s.ord) }

func mapRangeSiteList(p *Program) []mapRangeSite {
	var out []mapRangeSite
	seen := map[*ssa.Function]bool{}
	var visit func(fn *ssa.Function)
	visit = func(fn *ssa.Function) {
		if fn == nil || seen[fn] || fn.Blocks == nil {
			return
		}
		seen[fn] = true
		var rs []*ssa.Range
		for _, b := range fn.Blocks {
			for _, in := range b.Instrs {
				if r, ok := in.(*ssa.Range); ok {
					if _, isMap := r.X.Type().Underlying().(*types.Map); isMap {
						rs = append(rs, r)
					}
				}
			}
		}
		sort.Slice(rs, func(i, j int) bool { return rs[i].Pos() < rs[j].Pos() })
		for i, r := range rs {
			site := mapRangeSite{fn: fn, ord: i + 1, pos: p.fset.Position(r.Pos())}
			site.shape, site.why = mapRangeShape(fn, r)
			out = append(out, site)
		}
		for _, an := range fn.AnonFuncs {
			visit(an)
		}
	}
	var paths []string
	for path := range p.pkgs {
		paths = append(paths, path)
	}
	sort.Strings(paths)
	for _, path := range paths {
		if !strings.HasPrefix(path, modPath) {
			continue
		}
		pkg := p.pkgs[path]
		var names []string
		for n := range pkg.Members {
			names = append(names, n)
		}
		sort.Strings(names)
		for _, n := range names {
			switch t := pkg.Members[n].(type) {
			case *ssa.Function:
				visit(t)
			case *ssa.Type:
				for _, tt := range []types.Type{t.Type(), types.NewPointer(t.Type())} {
					ms := p.prog.MethodSets.MethodSet(tt)
					for i := 0; i < ms.Len(); i++ {
						visit(p.prog.MethodValue(ms.At(i)))
					}
				}
			}
		}
	}
	return out
}

// mapRangeShape classifies the loop of a map range by its effectful instructions.
func mapRangeShape(fn *ssa.Function, r *ssa.Range) (string, string) {
	// header: the block holding the Next of this range
	var head *ssa.BasicBlock
	var next *ssa.Next
	for _, ref := range *r.Referrers() {
		if n, ok := ref.(*ssa.Next); ok {
			head, next = n.Block(), n
		}
	}
	if head == nil {
		return "", "no Next instruction found"
	}
	// natural loop: blocks dominated by the header from which the header is reachable
	reach := map[*ssa.BasicBlock]bool{}
	var back func(b *ssa.BasicBlock)
	back = func(b *ssa.BasicBlock) {
		if reach[b] {
			return
		}
		reach[b] = true
		if b == head {
			return
		}
		for _, pr := range b.Preds {
			back(pr)
		}
	}
	for _, pr := range head.Preds {
		if head.Dominates(pr) {
			back(pr)
		}
	}
	reach[head] = true
	// the key cell: the alloc that receives Extract(next, 1)
	keyCells := map[ssa.Value]bool{}
	var keyVals []ssa.Value
	for _, ref := range *next.Referrers() {
		if ex, ok := ref.(*ssa.Extract); ok && ex.Index == 1 {
			keyVals = append(keyVals, ex)
			for _, r2 := range *ex.Referrers() {
				if st, ok := r2.(*ssa.Store); ok {
					keyCells[st.Addr] = true
				}
			}
		}
	}
	isKey := func(v ssa.Value) bool {
		for _, k := range keyVals {
			if v == k {
				return true
			}
		}
		if u, ok := v.(*ssa.UnOp); ok && u.Op == token.MUL && keyCells[u.X] {
			return true
		}
		return false
	}
	deletes, updates, appends, other := 0, 0, 0, ""
	for b := range reach {
		if !head.Dominates(b) {
			continue
		}
		for _, in := range b.Instrs {
			switch t := in.(type) {
			case *ssa.Return, *ssa.Panic:
				other = "the loop can be left early (" + fmt.Sprintf("%T", in) + ")"
			case *ssa.Go, *ssa.Defer, *ssa.Send:
				other = fmt.Sprintf("%T inside the loop", in)
			case *ssa.Store:
				a := t.Addr
				for {
					if ia, ok := a.(*ssa.IndexAddr); ok {
						a = ia.X
					} else if fa, ok := a.(*ssa.FieldAddr); ok {
						a = fa.X
					} else {
						break
					}
				}
				if _, local := a.(*ssa.Alloc); !local {
					other = "store to a non-local location inside the loop"
				}
			case *ssa.MapUpdate:
				if isKey(t.Key) {
					updates++
				} else {
					other = "map update with a key other than the range key"
				}
			case *ssa.Call:
				if bi, ok := t.Call.Value.(*ssa.Builtin); ok {
					switch bi.Name() {
					case "delete":
						if len(t.Call.Args) == 2 && isKey(t.Call.Args[1]) {
							deletes++
						} else {
							other = "delete with a key other than the range key"
						}
					case "append":
						appends++
					case "len", "cap":
					default:
						other = "builtin " + bi.Name() + " inside the loop"
					}
				} else {
					name := "a function value"
					if c := t.Call.StaticCallee(); c != nil {
						name = shortFn(c)
					}
					other = "call of " + name + " inside the loop"
				}
			}
		}
	}
	// early exit through a conditional branch out of the loop other than the header's own exit
	for b := range reach {
		if b == head || !head.Dominates(b) {
			continue
		}
		for _, s := range b.Succs {
			if !reach[s] {
				other = "the loop can be left early (break)"
			}
		}
	}
	if other != "" {
		return "", other
	}
	sorted := false
	for _, b := range fn.Blocks {
		for _, in := range b.Instrs {
			if c, ok := in.(*ssa.Call); ok {
				// only the natural total orders count: a comparator (sort.Slice, sort.Sort, slices.SortFunc) may
				// leave ties, which then fall back to the iteration order
				if sc := c.Call.StaticCallee(); sc != nil && sc.Pkg != nil && c.Pos() > r.Pos() {
					switch sc.Pkg.Pkg.Path() + "." + sc.Name() {
					case "sort.Strings", "sort.Ints", "sort.Float64s", "slices.Sort":
						sorted = true
					}
				}
			}
		}
	}
	switch {
	case deletes > 0 && updates == 0 && appends == 0:
		return "clear", "the loop only deletes the range key"
	case updates > 0 && deletes == 0 && appends == 0:
		return "copy", "the loop only stores under the range key into a map (keys are distinct)"
	case appends > 0 && updates == 0 && deletes == 0 && sorted:
		return "collect-sorted", "the loop only collects into a local slice that the function sorts afterwards"
	case appends == 0 && updates == 0 && deletes == 0:
		return "clear", "the loop has no effect"
	}
	return "", "mixed effects inside the loop"
}

type mapRangeReview struct {
	Verdict string `json:"verdict"` // "order-insensitive" | "order-dependent"
	Reason  string `json:"reason"`
}

func mapRangeObligations(p *Program, verif string) ([]*Obligation, []string) {
	reviewed := map[string]mapRangeReview{}
	if b, err := os.ReadFile(filepath.Join(verif, "spec", "maprange_reviewed.json")); err == nil {
		_ = json.Unmarshal(b, &reviewed)
	}
	var out []*Obligation
	var assumed []string
	used := map[string]bool{}
	for _, s := range mapRangeSiteList(p) {
		o := &Obligation{Name: s.name(), Kind: "table", Fn: shortFn(s.fn), Pos: s.pos, Solver: "shape-analysis",
			Desc: "the order of this iteration over a Go map cannot influence the result"}
		switch {
		case s.shape != "":
			o.Status = "unsat"
			o.RawOut = s.shape + ": " + s.why
		default:
			rv, ok := reviewed[s.name()]
			used[s.name()] = true
			switch {
			case ok && rv.Verdict == "order-insensitive":
				o.Status = "unsat"
				o.Solver = "reviewed-list"
				o.RawOut = "reviewed: " + rv.Reason
				assumed = append(assumed, "map iteration at "+s.name()+" reviewed as order-insensitive, NOT proved ("+s.why+"): "+rv.Reason)
			case ok:
				o.Status = "sat"
				o.RawOut = "order-dependent: " + rv.Reason
			default:
				o.Status = "unknown"
				o.RawOut = "not order-insensitive by shape (" + s.why + ") and not on the reviewed list /verif/spec/maprange_reviewed.json"
			}
		}
		out = append(out, o)
	}
	for k := range reviewed {
		if !used[k] {
			assumed = append(assumed, "stale entry in maprange_reviewed.json (no such site, or now decided by shape): "+k)
		}
	}
	sort.Strings(assumed)
	return out, assumed
}

// ---- C16: format strings are program constants --------------------------------------------------------------
// Every call of fmt.Sprintf / Errorf / Fprintf / Sprint-family with a format parameter in non-test code of the module
// passes a constant format, so text taken from the input (a message that quotes the offending byte or key) is never
// interpreted as a format. The one exception is errs.f (behind errs.Code.F), which formats an entry of the constant table
// errs.errorFormat (checked by errs.errorFormat#table:no-struct-verbs). One obligation per call site, named by function
// and ordinal.
func formatConstants(p *Program) []*Obligation {
	var out []*Obligation
	isFmtF := func(fn *ssa.Function) bool {
		if fn == nil || fn.Pkg == nil || fn.Pkg.Pkg.Path() != "fmt" {
			return false
		}
		switch fn.Name() {
		case "Sprintf", "Errorf", "Fprintf", "Printf", "Appendf", "Sscanf", "Fscanf":
			return true
		}
		return false
	}
	seen := map[*ssa.Function]bool{}
	var visit func(fn *ssa.Function)
	visit = func(fn *ssa.Function) {
		if fn == nil || seen[fn] || fn.Blocks == nil {
			return
		}
		seen[fn] = true
		type site struct {
			pos token.Pos
			arg ssa.Value
		}
		var sites []site
		for _, b := range fn.Blocks {
			for _, in := range b.Instrs {
				call, ok := in.(ssa.CallInstruction)
				if !ok {
					continue
				}
				cc := call.Common()
				callee := cc.StaticCallee()
				if !isFmtF(callee) {
					continue
				}
				idx := 0
				if callee.Name() == "Fprintf" || callee.Name() == "Appendf" || callee.Name() == "Sscanf" || callee.Name() == "Fscanf" {
					idx = 1
				}
				if idx < len(cc.Args) {
					sites = append(sites, site{in.Pos(), cc.Args[idx]})
				}
			}
		}
		sort.Slice(sites, func(i, j int) bool { return sites[i].pos < sites[j].pos })
		for i, st := range sites {
			o := &Obligation{Name: fmt.Sprintf("%s#fmtconst:%d", shortFn(fn), i+1), Kind: "table", Fn: shortFn(fn), Solver: "const-eval",
				Desc: "the format string of this fmt call is a program constant (input text is never interpreted as a format)", Pos: p.fset.Position(st.pos)}
			if c, ok := st.arg.(*ssa.Const); ok && c.Value != nil && c.Value.Kind() == constant.String {
				o.Status = "unsat"
				o.RawOut = fmt.Sprintf("constant format %q", constant.StringVal(c.Value))
			} else if shortFn(fn) == "errs.f" && readsOnlyTable(fn, "errorFormat") {
				o.Status = "unsat"
				o.RawOut = "format taken from the constant table errs.errorFormat (see errs.errorFormat#table:no-struct-verbs)"
			} else {
				o.Status = "sat"
				o.RawOut = "the format argument is computed at run time: " + st.arg.String()
				o.Model = o.RawOut
			}
			out = append(out, o)
		}
		for _, an := range fn.AnonFuncs {
			visit(an)
		}
	}
	var paths []string
	for path := range p.pkgs {
		paths = append(paths, path)
	}
	sort.Strings(paths)
	for _, path := range paths {
		if !strings.HasPrefix(path, modPath) || strings.Contains(path, "/internal/cmd") {
			continue
		}
		pkg := p.pkgs[path]
		var names []string
		for n := range pkg.Members {
			names = append(names, n)
		}
		sort.Strings(names)
		for _, n := range names {
			switch t := pkg.Members[n].(type) {
			case *ssa.Function:
				visit(t)
			case *ssa.Type:
				for _, tt := range []types.Type{t.Type(), types.NewPointer(t.Type())} {
					ms := p.prog.MethodSets.MethodSet(tt)
					for i := 0; i < ms.Len(); i++ {
						visit(p.prog.MethodValue(ms.At(i)))
					}
				}
			}
		}
	}
	return out
}

// ---- C16: every diagnostic is built with as many arguments as its format has placeholders ---------------------------
// errs.f (under contract: errs.f#panic-allowed / #nopanic-when) raises the "runtime failure" code exactly when the code has
// no entry in errs.errorFormat or the number of arguments differs from the number of '%' in the entry. One obligation per
// call `<constant code>.F(args...)` in non-test code of the module: the code has an entry and the argument count equals its
// placeholder count, so that call can only produce the designed diagnostic. Calls whose code is not a constant are listed as
// assumptions.
func errArgCounts(p *Program) ([]*Obligation, []string) {
	var out []*Obligation
	var assumed []string
	pkg := p.pkgs[modPrefix+"errs"]
	if pkg == nil {
		return []*Obligation{{Name: "errs.errorFormat#table:placeholders", Kind: "table", Status: "error", RawOut: "package errs not found", Solver: "const-eval"}}, nil
	}
	g, _ := pkg.Members["errorFormat"].(*ssa.Global)
	init := pkg.Func("init")
	counts := map[int64]int{}
	if g != nil && init != nil {
		var mapVal ssa.Value
		for _, b := range init.Blocks {
			for _, in := range b.Instrs {
				if st, ok := in.(*ssa.Store); ok && st.Addr == ssa.Value(g) {
					mapVal = st.Val
				}
			}
		}
		for _, b := range init.Blocks {
			for _, in := range b.Instrs {
				mu, ok := in.(*ssa.MapUpdate)
				if !ok || mu.Map != mapVal {
					continue
				}
				k, ok1 := mu.Key.(*ssa.Const)
				c, ok2 := mu.Value.(*ssa.Const)
				if !ok1 || !ok2 || k.Value == nil || c.Value == nil || c.Value.Kind() != constant.String {
					continue
				}
				if kv, exact := constant.Int64Val(k.Value); exact {
					counts[kv] = strings.Count(constant.StringVal(c.Value), "%")
				}
			}
		}
	}
	if len(counts) == 0 || g == nil || p.globalWrittenOutsideInit(g) != "" {
		return []*Obligation{{Name: "errs.errorFormat#table:placeholders", Kind: "table", Status: "error", RawOut: "errs.errorFormat could not be evaluated as a constant table", Solver: "const-eval", Fn: "errs (package initialiser)"}}, nil
	}
	isF := func(fn *ssa.Function) bool {
		return fn != nil && fn.Pkg != nil && fn.Pkg.Pkg.Path() == modPrefix+"errs" && fn.Name() == "F" && fn.Signature.Recv() != nil
	}
	seen := map[*ssa.Function]bool{}
	var visit func(fn *ssa.Function)
	visit = func(fn *ssa.Function) {
		if fn == nil || seen[fn] || fn.Blocks == nil || fn.Synthetic != "" {
			return
		}
		seen[fn] = true
		type site struct {
			pos  token.Pos
			call *ssa.CallCommon
		}
		var sites []site
		for _, b := range fn.Blocks {
			for _, in := range b.Instrs {
				call, ok := in.(ssa.CallInstruction)
				if !ok {
					continue
				}
				if cc := call.Common(); isF(cc.StaticCallee()) && len(cc.Args) == 2 {
					sites = append(sites, site{in.Pos(), cc})
				}
			}
		}
		sort.Slice(sites, func(i, j int) bool { return sites[i].pos < sites[j].pos })
		for i, st := range sites {
			name := fmt.Sprintf("%s#errargs:%d", shortFn(fn), i+1)
			code, ok := st.call.Args[0].(*ssa.Const)
			nargs := -1
			switch a := st.call.Args[1].(type) {
			case *ssa.Const:
				if a.IsNil() {
					nargs = 0
				}
			case *ssa.Slice:
				if al, ok := a.X.(*ssa.Alloc); ok && a.Low == nil && a.High == nil {
					if pt, ok := al.Type().Underlying().(*types.Pointer); ok {
						if at, ok := pt.Elem().Underlying().(*types.Array); ok {
							nargs = int(at.Len())
						}
					}
				}
			}
			if !ok || code.Value == nil || nargs < 0 {
				if shortFn(fn) != "errs.(Code).F" {
					assumed = append(assumed, fmt.Sprintf("%s at %s: the error code or the argument list of this .F(...) call is not a constant; that it matches its format is not checked", name, p.fset.Position(st.pos)))
				}
				continue
			}
			o := &Obligation{Name: name, Kind: "table", Fn: shortFn(fn), Solver: "const-eval", Pos: p.fset.Position(st.pos),
				Desc: "this diagnostic is built with exactly as many arguments as its format in errs.errorFormat has placeholders (so errs.f cannot answer with the runtime-failure code)"}
			cv, _ := constant.Int64Val(code.Value)
			want, has := counts[cv]
			switch {
			case !has:
				o.Status = "sat"
				o.RawOut = fmt.Sprintf("error code %d has no entry in errs.errorFormat", cv)
			case want != nargs:
				o.Status = "sat"
				o.RawOut = fmt.Sprintf("error code %d: the format has %d placeholders, the call passes %d arguments", cv, want, nargs)
			default:
				o.Status = "unsat"
				o.RawOut = fmt.Sprintf("code %d: %d placeholders, %d arguments", cv, want, nargs)
			}
			if o.Status == "sat" {
				o.Model = o.RawOut
			}
			out = append(out, o)
		}
		for _, an := range fn.AnonFuncs {
			visit(an)
		}
	}
	var paths []string
	for path := range p.pkgs {
		paths = append(paths, path)
	}
	sort.Strings(paths)
	for _, path := range paths {
		if !strings.HasPrefix(path, modPath) || strings.Contains(path, "/internal/cmd") {
			continue
		}
		pkg := p.pkgs[path]
		var names []string
		for n := range pkg.Members {
			names = append(names, n)
		}
		sort.Strings(names)
		for _, n := range names {
			switch t := pkg.Members[n].(type) {
			case *ssa.Function:
				visit(t)
			case *ssa.Type:
				for _, tt := range []types.Type{t.Type(), types.NewPointer(t.Type())} {
					ms := p.prog.MethodSets.MethodSet(tt)
					for i := 0; i < ms.Len(); i++ {
						visit(p.prog.MethodValue(ms.At(i)))
					}
				}
			}
		}
	}
	sort.Strings(assumed)
	return out, assumed
}

// readsOnlyTable: every map lookup in fn is a lookup in the package-level table of that name, and there is one
func readsOnlyTable(fn *ssa.Function, table string) bool {
	n := 0
	for _, b := range fn.Blocks {
		for _, in := range b.Instrs {
			lk, ok := in.(*ssa.Lookup)
			if !ok {
				continue
			}
			if _, isMap := lk.X.Type().Underlying().(*types.Map); !isMap {
				continue
			}
			ld, ok := lk.X.(*ssa.UnOp)
			if !ok {
				return false
			}
			g, ok := ld.X.(*ssa.Global)
			if !ok || g.Name() != table {
				return false
			}
			n++
		}
	}
	return n > 0
}
