package main

// Discharging obligations: one SMT-LIB file per obligation, solver portfolio, parallel workers.

import (
	"hash/fnv"
	"bytes"
	"context"
	"fmt"
	"os"
	"os/exec"
	"path/filepath"
	"regexp"
	"strings"
	"sync"
	"time"
)

type SolverCfg struct {
	Name string
	Cmd  []string // file appended
}

func solvers(timeoutS int) []SolverCfg {
	return []SolverCfg{
		{"z3-4.8.12", []string{"z3", fmt.Sprintf("-T:%d", timeoutS), "smt.mbqi=false"}},
		{"z3-5.1.0", []string{"z3-new", fmt.Sprintf("-T:%d", timeoutS)}},
		{"cvc5-1.0", []string{"cvc5", "--incremental", "--enum-inst", fmt.Sprintf("--tlimit=%d", timeoutS*1000)}},
	}
}

var reBadName = regexp.MustCompile(`[^A-Za-z0-9_.#@:~-]+`)

func (o *Obligation) fileName() string {
	n := reBadName.ReplaceAllString(strings.ReplaceAll(o.Name, modPath+"/", ""), "_")
	if len(n) > 180 { // file-name limit: long generic instance names
		h := fnv.New32a()
		h.Write([]byte(o.Name))
		n = fmt.Sprintf("%s~%08x", n[:170], h.Sum32())
	}
	return n + ".smt2"
}

func (o *Obligation) smt(prelude string, withModel bool) string {
	var sb strings.Builder
	sb.WriteString("(set-option :produce-models true)\n(set-logic ALL)\n")
	sb.WriteString(prelude)
	sb.WriteString("; ---- context of " + o.Fn + "\n")
	for _, a := range o.vc.asserts[:o.NAssert] {
		sb.WriteString(a)
		sb.WriteString("\n")
	}
	sb.WriteString("; ---- obligation " + o.Name + ": " + strings.ReplaceAll(o.Desc, "\n", " ") + "\n")
	if o.ExpectSat {
		sb.WriteString("(check-sat)\n")
		return sb.String()
	}
	goal := o.Goal
	if o.Region != "" {
		goal = fmt.Sprintf("(=> (not %s) %s)", o.Region, o.Goal)
	}
	sb.WriteString("(assert (not " + goal + "))\n(check-sat)\n")
	if withModel {
		sb.WriteString("(get-model)\n")
	}
	return sb.String()
}

func runSolver(cfg SolverCfg, file string, timeoutS int) (status string, out string, secs float64) {
	ctx, cancel := context.WithTimeout(context.Background(), time.Duration(timeoutS+2)*time.Second)
	defer cancel()
	args := append(append([]string{}, cfg.Cmd[1:]...), file)
	cmd := exec.CommandContext(ctx, cfg.Cmd[0], args...)
	var buf bytes.Buffer
	cmd.Stdout = &buf
	cmd.Stderr = &buf
	t0 := time.Now()
	_ = cmd.Run()
	secs = time.Since(t0).Seconds()
	out = buf.String()
	first := strings.TrimSpace(strings.SplitN(out, "\n", 2)[0])
	switch first {
	case "sat", "unsat", "unknown":
		status = first
	case "timeout":
		status = "timeout"
	default:
		if ctx.Err() != nil {
			status = "timeout"
		} else {
			status = "error"
		}
	}
	return
}

type SolveOpts struct {
	NoRetry  bool
	OutDir   string
	TimeoutS int
	Race     bool // run all solvers and require agreement where more than one answers (thorough)
	Workers  int
	Prelude  string
}

func discharge(obs []*Obligation, opt SolveOpts) {
	os.MkdirAll(opt.OutDir, 0o755)
	var wg sync.WaitGroup
	sem := make(chan struct{}, opt.Workers)
	for _, o := range obs {
		wg.Add(1)
		sem <- struct{}{}
		go func(o *Obligation) {
			defer wg.Done()
			defer func() { <-sem }()
			solveOne(o, opt)
		}(o)
	}
	wg.Wait()
	if opt.NoRetry || os.Getenv("GOVC_NORETRY") != "" {
		return
	}
	// second chance for undecided obligations: a time-out under machine load must not become an alarm.
	// They are re-run with little parallelism and twice the budget once everything else has finished.
	var again []*Obligation
	for _, o := range obs {
		if !o.ok() && !o.ExpectSat && (o.Status == "timeout" || o.Status == "unknown" || o.Status == "error") {
			again = append(again, o)
		}
	}
	if len(again) == 0 || len(again) > 40 {
		return // many undecided obligations: a real failure, not load
	}
	opt2 := opt
	opt2.NoRetry = true
	opt2.Workers = 4
	opt2.TimeoutS = opt.TimeoutS * 2
	for _, o := range again {
		o.Retried = true
	}
	discharge(again, opt2)
}

func solveOne(o *Obligation, opt SolveOpts) {
	file := filepath.Join(opt.OutDir, o.fileName())
	if err := os.WriteFile(file, []byte(o.smt(opt.Prelude, true)), 0o644); err != nil {
		o.Status = "error"
		o.RawOut = err.Error()
		return
	}
	want := "unsat"
	if o.ExpectSat {
		want = "sat"
	}
	var total float64
	var lastOut string
	o.Status = "unknown"
	type stage struct {
		cfg SolverCfg
		tmo int
	}
	all := solvers(opt.TimeoutS)
	quickT := 2
	if quickT > opt.TimeoutS {
		quickT = opt.TimeoutS
	}
	// portfolio schedule: a short attempt with the usually fastest solver, then the others in full
	stages := []stage{{solvers(quickT)[0], quickT}, {all[1], opt.TimeoutS}, {all[0], opt.TimeoutS}, {all[2], opt.TimeoutS}}
	if o.ExpectSat {
		// vacuity guard: a quick satisfiability probe; only a definite unsat is an error
		stages = []stage{{solvers(3)[0], 3}}
	}
	if opt.Race {
		stages = []stage{{all[0], opt.TimeoutS}, {all[1], opt.TimeoutS}, {all[2], opt.TimeoutS}}
		if o.ExpectSat {
			// reachability probes fail only on a definite unsat, which comes quickly or not at all: every solver gets
			// a short try instead of the full budget (they made the thorough tier take hours without deciding anything)
			short := solvers(5)
			stages = []stage{{short[0], 5}, {short[1], 5}, {short[2], 5}}
		}
	}
	for _, sg := range stages {
		s := sg.cfg
		st, out, secs := runSolver(s, file, sg.tmo)
		total += secs
		lastOut = out
		if st == "sat" || st == "unsat" {
			if st == want || o.Status == "unknown" || o.Status == "timeout" || o.Status == "error" {
				o.Status = st
				o.Solver = s.Name
				o.RawOut = out
			}
			if st == "sat" && !o.ExpectSat {
				o.Model = out
			}
			if !opt.Race {
				break
			}
			continue
		}
		if o.Status != "sat" && o.Status != "unsat" {
			o.Status = st
			o.Solver = s.Name
			o.RawOut = out
		}
	}
	_ = lastOut
	o.Time = total
	if o.ok() {
		if os.Getenv("GOVC_KEEP") == "" {
			os.Remove(file)
		}
	}
}

func (o *Obligation) ok() bool {
	if o.ExpectSat {
		return o.Status != "unsat" // vacuity: only a definite unsat is an error
	}
	return o.Status == "unsat"
}
