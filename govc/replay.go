package main

// Replay of solver counterexamples on the real code: the model's input values are read back with
// (get-value), turned into an in-package Go test that is injected with `go test -overlay` (nothing is
// written to /repo), the real function is called and the observed behaviour is compared with what the
// model predicts.

import (
	"bytes"
	"context"
	"encoding/json"
	"fmt"
	"go/types"
	"os"
	"os/exec"
	"path/filepath"
	"strconv"
	"strings"
	"time"

	"golang.org/x/tools/go/ssa"
)

type replayer struct {
	p       *Program
	o       *Obligation
	query   string // SMT text of the failing query up to (check-sat)
	solver  SolverCfg
	imports map[string]string // path -> name
	pkg     *types.Package
	fail    string
	cache   map[string]string
	calls   int       // solver calls made for this replay
	started time.Time // a replay that needs many model queries (huge slices in the model) is given up
}

// replaySpent: wall-clock time the counterexample replays of this run have taken (they are a service, not the verdict)
var replaySpent time.Duration

func writeReplay(p *Program, o *Obligation, dir, verif, repo string) (path string, confirmed bool) {
	path = filepath.Join(dir, reBadName.ReplaceAllString(o.Name, "_")+".replay.txt")
	var sb strings.Builder
	fmt.Fprintf(&sb, "obligation: %s\nkind: %s\nfunction: %s\nat: %s\nstatement: %s\nstatus: %s (%s, %.2fs)\n", o.Name, o.Kind, o.Fn, o.Pos, o.Desc, o.Status, o.Solver, o.Time)
	if o.vc != nil && o.Kind != "translate" && o.Kind != "lemma" {
		fmt.Fprintf(&sb, "smt query: %s\n", filepath.Join(verif, "out", "*", o.fileName()))
	}
	defer func() {
		out := o.RawOut
		if len(out) > 6000 {
			out = out[:6000] + "\n...[truncated]"
		}
		fmt.Fprintf(&sb, "\n---- solver output ----\n%s\n", out)
		os.WriteFile(path, []byte(sb.String()), 0o644)
	}()
	if o.Status != "sat" || o.vc == nil {
		fmt.Fprintf(&sb, "\nno model available: the obligation is undischarged (%s); reported without a failing input\n", o.Status)
		return path, false
	}
	fn := p.fnByName(o.Fn)
	if fn == nil {
		fmt.Fprintf(&sb, "\nreplay: function %s not found\n", o.Fn)
		return path, false
	}
	if replaySpent > 5*time.Minute {
		fmt.Fprintf(&sb, "\nreplay skipped: the replays of this run have already taken %s (the violation is reported without a failing input)\n", replaySpent.Round(time.Second))
		return path, false
	}
	t0 := time.Now()
	defer func() { replaySpent += time.Since(t0) }()
	rp := &replayer{p: p, o: o, imports: map[string]string{}, cache: map[string]string{}}
	rp.pkg = fn.Pkg.Pkg
	for _, s := range solvers(20) {
		if s.Name == o.Solver {
			rp.solver = s
		}
	}
	if rp.solver.Name == "" {
		rp.solver = solvers(20)[0]
	}
	q := o.smt(p.prelude.text, false)
	rp.query = q
	test, desc, ok := rp.buildTest(fn)
	fmt.Fprintf(&sb, "\n---- counterexample inputs (from the solver model) ----\n%s\n", desc)
	if !ok {
		fmt.Fprintf(&sb, "replay: inputs cannot be rebuilt as Go values: %s\n", rp.fail)
		return path, false
	}
	testPath := strings.TrimSuffix(path, ".replay.txt") + "_test.go.txt"
	os.WriteFile(testPath, []byte(test), 0o644)
	out, err := runOverlayTest(repo, fn, test, verif)
	fmt.Fprintf(&sb, "\n---- replay on the real code (go test -overlay, in-package test %s) ----\n%s\n", testPath, out)
	if err != nil && !strings.Contains(out, "GOVC-") {
		fmt.Fprintf(&sb, "replay: test did not run: %v\n", err)
		return path, false
	}
	panicked := strings.Contains(out, "GOVC-PANIC")
	switch o.Kind {
	case "safe", "panic":
		if panicked {
			fmt.Fprintf(&sb, "CONFIRMED: the real function panics on this input\n")
			return path, true
		}
		fmt.Fprintf(&sb, "not confirmed: the real function did not panic on this input\n")
		return path, false
	case "post":
		if panicked {
			fmt.Fprintf(&sb, "not confirmed: the real function panicked instead of returning\n")
			return path, false
		}
		// compare observed scalar results with the model's prediction
		pred := rp.predictedResults()
		obs := parseObserved(out)
		fmt.Fprintf(&sb, "model predicts results: %v\nobserved results:       %v\n", pred, obs)
		if len(pred) == 0 || len(pred) != len(obs) {
			fmt.Fprintf(&sb, "not confirmed: results not comparable\n")
			return path, false
		}
		for i := range pred {
			if pred[i] == "?" {
				continue
			}
			if pred[i] != obs[i] {
				fmt.Fprintf(&sb, "not confirmed: the real code returns something else than the model (result %d)\n", i)
				return path, false
			}
		}
		fmt.Fprintf(&sb, "CONFIRMED: the real function returns exactly what the model predicts, and that violates: %s\n", o.Desc)
		return path, true
	}
	fmt.Fprintf(&sb, "obligation kind %q has no direct replay criterion; inputs and observed behaviour are attached\n", o.Kind)
	return path, false
}

func (p *Program) fnByName(short string) *ssa.Function {
	for _, fn := range p.byKey {
		if shortFn(fn) == short {
			return fn
		}
	}
	return nil
}

// getValues runs the failing query again and reads back the values of the given terms.
func (rp *replayer) getValues(terms []string) map[string]string {
	out := map[string]string{}
	var need []string
	for _, t := range terms {
		if v, ok := rp.cache[t]; ok {
			out[t] = v
		} else {
			need = append(need, t)
		}
	}
	if len(need) == 0 {
		return out
	}
	if rp.started.IsZero() {
		rp.started = time.Now()
	}
	rp.calls++
	if rp.calls > 60 || time.Since(rp.started) > 90*time.Second {
		rp.fail = "replay given up: the model needs too many queries to be read back (a very large value)"
		return out
	}
	dir, _ := os.MkdirTemp("", "govc-replay")
	defer os.RemoveAll(dir)
	file := filepath.Join(dir, "q.smt2")
	var sb strings.Builder
	sb.WriteString(rp.query)
	// pin previously read values so that successive queries describe the same model
	for t, v := range rp.cache {
		if !strings.Contains(v, "!val!") && !strings.Contains(v, "as-array") && !strings.Contains(v, "lambda") {
			fmt.Fprintf(&sb, "; pinned\n")
			_ = t
		}
	}
	sb.WriteString("(get-value (" + strings.Join(need, " ") + "))\n")
	os.WriteFile(file, []byte(sb.String()), 0o644)
	st, res, _ := runSolver(rp.solver, file, 30)
	if st != "sat" {
		return out
	}
	// parse "((term value) (term value))"
	idx := strings.Index(res, "\n")
	if idx < 0 {
		return out
	}
	toks := sexprTokens(strings.ReplaceAll(res[idx+1:], "\n", " "))
	// walk: ( ( term value ) ... )
	i := 0
	if i < len(toks) && toks[i] == "(" {
		i++
	}
	k := 0
	for i < len(toks) && toks[i] == "(" && k < len(need) {
		i++
		_, i = readSexpr(toks, i) // term
		var v string
		v, i = readSexpr(toks, i)
		if i < len(toks) && toks[i] == ")" {
			i++
		}
		out[need[k]] = v
		rp.cache[need[k]] = v
		k++
	}
	return out
}

func readSexpr(toks []string, i int) (string, int) {
	if i >= len(toks) {
		return "", i
	}
	if toks[i] != "(" {
		return toks[i], i + 1
	}
	depth := 0
	var parts []string
	for i < len(toks) {
		t := toks[i]
		parts = append(parts, t)
		i++
		if t == "(" {
			depth++
		} else if t == ")" {
			depth--
			if depth == 0 {
				break
			}
		}
	}
	s := strings.Join(parts, " ")
	s = strings.ReplaceAll(s, "( ", "(")
	s = strings.ReplaceAll(s, " )", ")")
	return s, i
}

func smtIntValue(v string) (int64, bool) {
	v = strings.TrimSpace(v)
	neg := false
	if strings.HasPrefix(v, "(-") {
		neg = true
		v = strings.TrimSpace(strings.TrimSuffix(strings.TrimPrefix(v, "(-"), ")"))
	}
	n, err := strconv.ParseInt(v, 10, 64)
	if err != nil {
		u, err2 := strconv.ParseUint(v, 10, 64)
		if err2 != nil {
			return 0, false
		}
		return int64(u), !neg
	}
	if neg {
		n = -n
	}
	return n, true
}

func (rp *replayer) intOf(term string) (int64, bool) {
	v := rp.getValues([]string{term})[term]
	return smtIntValue(v)
}

func (rp *replayer) qual(t types.Type) string {
	return types.TypeString(t, func(p *types.Package) string {
		if p == rp.pkg {
			return ""
		}
		rp.imports[p.Path()] = p.Name()
		return p.Name()
	})
}

const maxReplayLen = 4096

// goLiteral builds a Go expression for the value of an SMT term of the given Go type in the entry state.
func (rp *replayer) goLiteral(term string, t types.Type, depth int) (string, bool) {
	vc := rp.o.vc
	if depth > 5 {
		rp.fail = "value nesting too deep"
		return "", false
	}
	switch u := types.Unalias(t).Underlying().(type) {
	case *types.Basic:
		switch {
		case u.Info()&types.IsInteger != 0:
			n, ok := rp.intOf(term)
			if !ok {
				v := rp.getValues([]string{term})[term]
				if _, err := strconv.ParseUint(strings.TrimSpace(v), 10, 64); err == nil {
					return fmt.Sprintf("%s(%s)", rp.qual(t), strings.TrimSpace(v)), true
				}
				rp.fail = "integer value not readable: " + v
				return "", false
			}
			if u.Kind() == types.Uint || u.Kind() == types.Uint64 {
				v := rp.getValues([]string{term})[term]
				return fmt.Sprintf("%s(%s)", rp.qual(t), strings.TrimSpace(v)), true
			}
			return fmt.Sprintf("%s(%d)", rp.qual(t), n), true
		case u.Info()&types.IsBoolean != 0:
			v := rp.getValues([]string{term})[term]
			return fmt.Sprintf("%s(%s)", rp.qual(t), strings.TrimSpace(v)), true
		case u.Info()&types.IsString != 0:
			n, ok := rp.intOf(fmt.Sprintf("(slen %s)", term))
			if !ok || n > maxReplayLen {
				rp.fail = "string too long for replay"
				return "", false
			}
			var ts []string
			for i := int64(0); i < n; i++ {
				ts = append(ts, fmt.Sprintf("(sat %s %d)", term, i))
			}
			vals := rp.getValues(ts)
			b := make([]byte, n)
			for i, tt := range ts {
				x, _ := smtIntValue(vals[tt])
				b[i] = byte(x)
			}
			return fmt.Sprintf("%s(%s)", rp.qual(t), strconv.Quote(string(b))), true
		}
	case *types.Slice:
		arr, ok1 := rp.intOf(fmt.Sprintf("(arr %s)", term))
		n, ok2 := rp.intOf(fmt.Sprintf("(len %s)", term))
		cp, _ := rp.intOf(fmt.Sprintf("(cap %s)", term))
		if !ok1 || !ok2 {
			rp.fail = "slice header not readable"
			return "", false
		}
		if arr == 0 {
			return fmt.Sprintf("%s(nil)", rp.qual(t)), true
		}
		if n > maxReplayLen {
			rp.fail = fmt.Sprintf("slice of length %d too long for replay", n)
			return "", false
		}
		E := q("H0 " + elemComp(u.Elem()))
		if !vc.declared[E] {
			// component never touched: elements are arbitrary -> zero values
			var zs []string
			for i := int64(0); i < n; i++ {
				zs = append(zs, "0")
			}
			_ = zs
		}
		var elems []string
		for i := int64(0); i < n; i++ {
			et := fmt.Sprintf("(select (select %s (arr %s)) (+ (off %s) %d))", E, term, term, i)
			if !vc.declared[E] {
				elems = append(elems, rp.zeroLit(u.Elem()))
				continue
			}
			lit, ok := rp.goLiteral(et, u.Elem(), depth+1)
			if !ok {
				return "", false
			}
			elems = append(elems, lit)
		}
		lit := fmt.Sprintf("%s{%s}", rp.qual(t), strings.Join(elems, ", "))
		if cp > n && cp-n <= 64 {
			return fmt.Sprintf("append(make(%s, 0, %d), %s...)", rp.qual(t), cp, lit), true
		}
		return lit, true
	case *types.Pointer:
		ref, ok := rp.intOf(term)
		if !ok {
			rp.fail = "pointer not readable"
			return "", false
		}
		if ref == 0 {
			return fmt.Sprintf("(%s)(nil)", rp.qual(t)), true
		}
		sty, name, isStruct := structOf(u.Elem())
		if !isStruct {
			rp.fail = "pointer to non-struct"
			return "", false
		}
		var fs []string
		for i := 0; i < sty.NumFields(); i++ {
			comp := q("H0 " + fieldComp(name, sty.Field(i).Name()))
			if !vc.declared[comp] {
				continue // never read: any value will do
			}
			lit, ok := rp.goLiteral(fmt.Sprintf("(select %s %s)", comp, term), sty.Field(i).Type(), depth+1)
			if !ok {
				return "", false
			}
			fs = append(fs, fmt.Sprintf("%s: %s", sty.Field(i).Name(), lit))
		}
		if !rp.canBuild(u.Elem(), sty) {
			return "", false
		}
		return fmt.Sprintf("&%s{%s}", rp.qual(u.Elem()), strings.Join(fs, ", ")), true
	case *types.Struct:
		name := typeName(t)
		// constructors for foreign types with unexported fields
		if name == "bytes.Bytes" {
			d, ok := rp.goLiteral(fmt.Sprintf("(%s %s)", fieldSel(name, "data", 0), term), u.Field(0).Type(), depth+1)
			if !ok {
				return "", false
			}
			if rp.pkg.Path() == modPrefix+"bytes" {
				return fmt.Sprintf("Bytes{data: %s}", d), true
			}
			rp.imports[modPrefix+"bytes"] = "bytes"
			return fmt.Sprintf("bytes.NewBytes(%s)", d), true
		}
		if !rp.canBuild(t, u) {
			return "", false
		}
		var fs []string
		for i := 0; i < u.NumFields(); i++ {
			lit, ok := rp.goLiteral(fmt.Sprintf("(%s %s)", fieldSel(name, u.Field(i).Name(), i), term), u.Field(i).Type(), depth+1)
			if !ok {
				return "", false
			}
			fs = append(fs, fmt.Sprintf("%s: %s", u.Field(i).Name(), lit))
		}
		return fmt.Sprintf("%s{%s}", rp.qual(t), strings.Join(fs, ", ")), true
	case *types.Interface:
		tagv, ok := rp.intOf(fmt.Sprintf("(iface_tag %s)", term))
		if !ok {
			rp.fail = "interface tag not readable"
			return "", false
		}
		if tagv == 0 {
			return "nil", true
		}
		ct, known := rp.p.tagTypes[int(tagv)]
		if !known {
			rp.fail = fmt.Sprintf("interface holds an unknown dynamic type (tag %d)", tagv)
			return "", false
		}
		_, unbox := vc.boxFns(ct)
		return rp.goLiteral(fmt.Sprintf("(%s %s)", unbox, term), ct, depth+1)
	}
	rp.fail = "no Go literal for type " + t.String()
	return "", false
}

func (rp *replayer) zeroLit(t types.Type) string {
	switch u := types.Unalias(t).Underlying().(type) {
	case *types.Basic:
		switch {
		case u.Info()&types.IsInteger != 0:
			return "0"
		case u.Info()&types.IsBoolean != 0:
			return "false"
		case u.Info()&types.IsString != 0:
			return `""`
		}
	}
	return rp.qual(t) + "{}"
}

func (rp *replayer) canBuild(t types.Type, sty *types.Struct) bool {
	n, ok := types.Unalias(t).(*types.Named)
	if ok && n.Obj().Pkg() == rp.pkg {
		return true
	}
	for i := 0; i < sty.NumFields(); i++ {
		if !sty.Field(i).Exported() {
			rp.fail = "struct " + t.String() + " has unexported fields and no known constructor"
			return false
		}
	}
	return true
}

func (rp *replayer) buildTest(fn *ssa.Function) (src, desc string, ok bool) {
	var args []string
	var sb strings.Builder
	for _, prm := range fn.Params {
		lit, ok := rp.goLiteral(q("p "+prm.Name()), prm.Type(), 0)
		if !ok {
			fmt.Fprintf(&sb, "%s = <not reconstructible: %s>\n", prm.Name(), rp.fail)
			return "", sb.String(), false
		}
		fmt.Fprintf(&sb, "%s = %s\n", prm.Name(), lit)
		args = append(args, lit)
	}
	nres := fn.Signature.Results().Len()
	var call string
	if fn.Signature.Recv() != nil {
		call = fmt.Sprintf("(a0).%s(%s)", fn.Name(), argNames(1, len(args)))
	} else {
		call = fmt.Sprintf("%s(%s)", fn.Name(), argNames(0, len(args)))
	}
	var body strings.Builder
	for i, a := range args {
		fmt.Fprintf(&body, "\ta%d := %s\n\t_ = a%d\n", i, a, i)
	}
	if nres == 0 {
		fmt.Fprintf(&body, "\t%s\n\tfmt.Println(\"GOVC-RESULT\")\n", call)
	} else {
		var rs, fmts, conv []string
		for i := 0; i < nres; i++ {
			rs = append(rs, fmt.Sprintf("r%d", i))
			fmts = append(fmts, "%s")
			conv = append(conv, fmt.Sprintf("govcShow(r%d)", i))
		}
		fmt.Fprintf(&body, "\t%s := %s\n\tfmt.Printf(\"GOVC-RESULT %s\\n\", %s)\n", strings.Join(rs, ", "), call, strings.Join(fmts, " | "), strings.Join(conv, ", "))
	}
	var imp strings.Builder
	imp.WriteString("\t\"fmt\"\n\t\"reflect\"\n\t\"testing\"\n")
	for path, name := range rp.imports {
		fmt.Fprintf(&imp, "\t%s %q\n", name, path)
	}
	src = fmt.Sprintf(`package %s

// generated by govc: replay of a solver counterexample for obligation
//   %s
import (
%s)

func govcShow(v any) string {
	rv := reflect.ValueOf(v)
	if !rv.IsValid() {
		return "nil"
	}
	switch rv.Kind() {
	case reflect.Ptr, reflect.Interface, reflect.Map, reflect.Slice, reflect.Func:
		if rv.IsNil() {
			return "nil"
		}
		if rv.Kind() == reflect.Slice && rv.Type().Elem().Kind() == reflect.Uint8 {
			return fmt.Sprintf("%%q", rv.Bytes())
		}
		return "non-nil"
	case reflect.Int, reflect.Int8, reflect.Int16, reflect.Int32, reflect.Int64:
		return fmt.Sprint(rv.Int())
	case reflect.Uint, reflect.Uint8, reflect.Uint16, reflect.Uint32, reflect.Uint64:
		return fmt.Sprint(rv.Uint())
	case reflect.Bool:
		return fmt.Sprint(rv.Bool())
	case reflect.String:
		return fmt.Sprintf("%%q", rv.String())
	}
	return fmt.Sprintf("%%+v", v)
}

func TestGovcReplay(t *testing.T) {
	defer func() {
		if r := recover(); r != nil {
			fmt.Printf("GOVC-PANIC %%v\n", r)
		}
	}()
%s}
`, fn.Pkg.Pkg.Name(), rp.o.Name, imp.String(), body.String())
	return src, sb.String(), true
}

func argNames(from, n int) string {
	var a []string
	for i := from; i < n; i++ {
		a = append(a, fmt.Sprintf("a%d", i))
	}
	return strings.Join(a, ", ")
}

func runOverlayTest(repo string, fn *ssa.Function, src, verif string) (string, error) {
	dir, err := os.MkdirTemp("", "govc-overlay")
	if err != nil {
		return "", err
	}
	defer os.RemoveAll(dir)
	rel := strings.TrimPrefix(strings.TrimPrefix(fn.Pkg.Pkg.Path(), modPath), "/")
	pkgDir := filepath.Join(repo, rel)
	testFile := filepath.Join(dir, "zz_govc_replay_test.go")
	os.WriteFile(testFile, []byte(src), 0o644)
	ov := map[string]map[string]string{"Replace": {filepath.Join(pkgDir, "zz_govc_replay_test.go"): testFile}}
	ob, _ := json.Marshal(ov)
	ovFile := filepath.Join(dir, "overlay.json")
	os.WriteFile(ovFile, ob, 0o644)
	ctx, cancel := context.WithTimeout(context.Background(), 180*time.Second)
	defer cancel()
	target := "./" + rel
	if rel == "" {
		target = "."
	}
	cmd := exec.CommandContext(ctx, "go", "test", "-overlay", ovFile, "-vet=off", "-count=1", "-timeout", "60s", "-run", "^TestGovcReplay$", "-v", target)
	cmd.Dir = repo
	cmd.Env = append(os.Environ(), "GOFLAGS=-mod=mod", "GOPROXY=off", "GOSUMDB=off", "GOTOOLCHAIN=local")
	var buf bytes.Buffer
	cmd.Stdout = &buf
	cmd.Stderr = &buf
	err = cmd.Run()
	out := buf.String()
	if len(out) > 4000 {
		out = out[:4000] + "\n...[truncated]"
	}
	return out, err
}

func parseObserved(out string) []string {
	for _, ln := range strings.Split(out, "\n") {
		if strings.HasPrefix(ln, "GOVC-RESULT") {
			rest := strings.TrimSpace(strings.TrimPrefix(ln, "GOVC-RESULT"))
			if rest == "" {
				return nil
			}
			parts := strings.Split(rest, " | ")
			for i := range parts {
				parts[i] = strings.TrimSpace(parts[i])
			}
			return parts
		}
	}
	return nil
}

// predictedResults: the model's values of the result terms of the exit this post obligation belongs to.
func (rp *replayer) predictedResults() []string {
	var out []string
	for _, r := range rp.o.Results {
		switch u := types.Unalias(r.Typ).Underlying().(type) {
		case *types.Basic:
			switch {
			case u.Info()&types.IsInteger != 0:
				if n, ok := rp.intOf(r.T); ok {
					out = append(out, fmt.Sprint(n))
					continue
				}
			case u.Info()&types.IsBoolean != 0:
				out = append(out, strings.TrimSpace(rp.getValues([]string{r.T})[r.T]))
				continue
			}
			out = append(out, "?")
		case *types.Pointer, *types.Map:
			if n, ok := rp.intOf(r.T); ok {
				if n == 0 {
					out = append(out, "nil")
				} else {
					out = append(out, "non-nil")
				}
				continue
			}
			out = append(out, "?")
		case *types.Interface:
			if n, ok := rp.intOf(fmt.Sprintf("(iface_tag %s)", r.T)); ok {
				if n == 0 {
					out = append(out, "nil")
				} else {
					out = append(out, "non-nil")
				}
				continue
			}
			out = append(out, "?")
		default:
			out = append(out, "?")
		}
	}
	return out
}
