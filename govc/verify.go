package main

// Per-function driver: builds the verification conditions of one function under contract.

import (
	"fmt"
	"go/token"
	"go/types"
	"os"
	"sort"
	"strings"

	"golang.org/x/tools/go/ssa"
)

type FuncResult struct {
	Fn       *ssa.Function
	Key      string
	Con      *Contract
	VC       *VC
	Err      string // translation failure (unsupported construct)
	Obligs   []*Obligation
	Inlined  []string
	Assumed  []string
	Havocked []string
	Notes    []string
}

func (p *Program) verifyFunction(fn *ssa.Function, con *Contract) (res *FuncResult) {
	name := shortFn(fn)
	res = &FuncResult{Fn: fn, Key: name, Con: con}
	vc := newVC(p, name)
	vc.props = con.Props
	res.VC = vc
	defer func() {
		if r := recover(); r != nil {
			if u, ok := r.(unsupported); ok {
				res.Err = u.why
				res.Obligs = vc.obligs
				return
			}
			panic(r)
		}
	}()
	f := &Frame{vc: vc, fn: fn, con: con, vals: map[ssa.Value]Val{}, params: map[string]Val{}, top: true,
		stack: []*ssa.Function{fn}, spec: map[string]Val{}, edgeCnd: map[*ssa.BasicBlock]map[*ssa.BasicBlock]string{}}
	st := &State{cells: map[*ssa.Alloc]string{}, heap: map[string]string{}}
	st.alloc = vc.declare("alloc0", "Int")
	vc.assert(fmt.Sprintf("(>= %s 1)", st.alloc))
	for _, prm := range fn.Params {
		srt := vc.sortOf(prm.Type())
		n := vc.declare("p "+prm.Name(), srt)
		vc.assert(vc.typed(n, prm.Type(), 3))
		vc.assert(vc.refsBelow(n, prm.Type(), st.alloc, 3))
		v := Val{T: n, Typ: prm.Type()}
		f.vals[prm] = v
		f.params[prm.Name()] = v
	}
	for _, fv := range fn.FreeVars {
		srt := vc.sortOf(fv.Type())
		n := vc.declare("fv "+fv.Name(), srt)
		vc.assert(vc.typed(n, fv.Type(), 3))
		v := Val{T: n, Typ: fv.Type()}
		f.vals[fv] = v
		f.params[fv.Name()] = v
	}
	for _, gname := range con.ReadsInit {
		f.importGlobalInit(gname, st)
	}
	f.entry = st.clone()
	// ghosts, lets (in source order)
	env0 := f.envPost(st, nil)
	f.bindGhosts(con, env0, true)
	for _, l := range con.Lets {
		f.spec[l.Name] = env0.vars[l.Name]
	}
	for _, g := range con.Ghosts {
		f.spec[g.Name] = env0.vars[g.Name]
	}
	for _, r := range con.Requires {
		vc.assert(env0.evalBool(r.E))
	}
	for _, d := range con.Decreases {
		f.entryMeasure = append(f.entryMeasure, vc.define("entry measure", "Int", env0.eval(d.E).T))
	}
	// regions of known findings are stated over the entry state of this function (parameters, lets, ghosts)
	for i := range p.findings {
		fd := &p.findings[i]
		if fd.Status != "known" || fd.Region == "" || !strings.HasPrefix(fd.Obligation, name+"#") {
			continue
		}
		re, err := ParseSpec(fd.Region)
		if err != nil {
			unsup("known_findings.json: region of %s does not parse: %v", fd.Obligation, err)
		}
		vc.regions[fd.Obligation] = env0.evalBool(re)
	}
	// vacuity: the precondition must be satisfiable
	vo := &Obligation{Name: name + "#vacuity:requires", Kind: "vacuity", Fn: name, Goal: "false", NAssert: len(vc.asserts), Pos: p.fset.Position(fn.Pos()), Desc: "precondition is satisfiable", ExpectSat: true, vc: vc, Props: con.Props}
	vc.obligs = append(vc.obligs, vo)

	if con.Trusted {
		res.Notes = append(res.Notes, "trusted: body not verified")
		res.Obligs = vc.obligs
		return res
	}
	if len(fn.Blocks) == 0 {
		unsup("function %s has no body", name)
	}
	f.indexReturns()
	f.analyseLoops()
	order := topoOrder(fn)
	in := map[*ssa.BasicBlock][]edge{fn.Blocks[0]: {{nil, "true", st}}}
	f.run(order, in, nil, nil)
	f.unwindPanics()

	// exits
	sort.SliceStable(f.exits, func(i, j int) bool { return f.exits[i].Pos < f.exits[j].Pos })
	nret := 0
	if os.Getenv("GOVC_DEBUG") != "" {
		for _, e := range f.exits {
			fmt.Fprintf(os.Stderr, "exit panic=%v retidx=%d cond=%s pos=%s\n", e.Panic, e.RetIdx, e.Cond, f.pos(e.Pos))
		}
	}
	for _, e := range f.exits {
		if e.Panic {
			f.checkPanicExit(e)
			continue
		}
		nret++
		f.checkReturn(e)
	}
	// an anchor of the contract that matched no program point: its hints / assertions were silently skipped,
	// which would make the contract vacuous there -> an obligation of its own
	var anchors []string
	for a, hs := range con.Hints {
		if len(hs) > 0 && !vc.usedAnchors[a] && a != "panic" {
			anchors = append(anchors, a)
		}
	}
	sort.Strings(anchors)
	for _, a := range anchors {
		vc.oblige("assert", fmt.Sprintf("%s#anchor:%s/stale", name, a), "true", vc.freshConst("stale", "Bool"), f.pos(fn.Pos()), "the contract has clauses anchored at '"+a+"', which matches no program point of this function any more")
	}
	res.Obligs = vc.obligs
	for k := range vc.inlined {
		res.Inlined = append(res.Inlined, k)
	}
	for k := range vc.assumed {
		res.Assumed = append(res.Assumed, k)
	}
	for k := range vc.havocked {
		res.Havocked = append(res.Havocked, k)
	}
	sort.Strings(res.Inlined)
	sort.Strings(res.Assumed)
	sort.Strings(res.Havocked)
	res.Notes = append(res.Notes, vc.notes...)
	return res
}

// envPost: environment for requires / ensures: parameter names denote entry values, result names the
// returned values.
func (f *Frame) envPost(st *State, results map[string]Val) *Env {
	e := f.env(st)
	e.frame = nil
	for k, v := range results {
		e.vars[k] = v
	}
	return e
}

func (f *Frame) resultBindings(e Exit) map[string]Val {
	out := map[string]Val{}
	rn := f.fn.Signature.Results()
	for i := 0; i < rn.Len() && i < len(e.Results); i++ {
		v := e.Results[i]
		if v.Loc != nil {
			v = Val{T: f.ptrTerm(v), Typ: rn.At(i).Type()}
		}
		v.Typ = rn.At(i).Type()
		if nm := rn.At(i).Name(); nm != "" && nm != "_" {
			out[nm] = v
		}
		out[fmt.Sprintf("result%d", i)] = v
		if rn.Len() == 1 {
			out["result"] = v
		}
	}
	return out
}

func (f *Frame) checkReturn(e Exit) {
	vc := f.vc
	con := f.con
	name := shortFn(f.fn)
	anchor := fmt.Sprintf("return#%d", e.RetIdx)
	if e.RetIdx == 0 {
		anchor = "return#end"
	}
	if e.RetIdx < 0 {
		anchor = "return#recover"
	}
	// vacuity: every return statement of the function must be reachable in the model. An unreachable return makes
	// every postcondition there vacuous; this is how an inconsistency between a callee's contract and the way the
	// call is modelled shows up (only a definite "unsat" counts; the probe is short)
	if e.RetIdx > 0 && e.Cond != "true" {
		seen := false
		for _, o := range vc.obligs {
			if o.Name == name+"#vacuity:"+anchor {
				seen = true
			}
		}
		if !seen {
			vc.obligs = append(vc.obligs, &Obligation{Name: name + "#vacuity:" + anchor, Kind: "vacuity", Fn: name, Goal: not(e.Cond), NAssert: len(vc.asserts), Pos: f.pos(e.Pos), Desc: "this return statement is reachable (its postconditions are not vacuous)", ExpectSat: true, vc: vc, Props: con.Props})
		}
	}
	// hints evaluated with access to local cells
	henv := f.env(e.St)
	for k, v := range f.resultBindings(e) {
		henv.vars[k] = v
	}
	for _, key := range []string{anchor, "return"} {
		if len(con.Hints[key]) > 0 {
			f.vc.usedAnchors[key] = true
		}
		for _, h := range con.Hints[key] {
			if h.Kind == "set" || h.Kind == "setdef" {
				f.execSet(h, e.Cond, e.St, henv)
				continue
			}
			if h.Kind == "bind" {
				f.spec[h.Bind] = henv.pinContent(henv.eval(h.E))
				continue
			}
			t := henv.evalBool(h.E)
			switch h.Kind {
			case "use":
				call, ok := h.E.(ECall)
				if !ok || (!vc.prog.prelude.isLemma(call.Fn) && call.Fn != "keys_subset_len" && call.Fn != "keys_subset2_len") {
					unsup("'use' hint must be a lemma or unfolding instance: %s", h.Src)
				}
				vc.assume(e.Cond, t)
			case "assert":
				vc.oblige("assert", fmt.Sprintf("%s#assert@%s", name, anchor), e.Cond, t, token.Position{Filename: con.File, Line: h.Line}, h.Src)
			}
		}
	}
	if con.Rethrows {
		goal := "true"
		if vc.recVal != "" {
			// a normal return of a deferred function stops a panic only if recover() was called directly by it
			goal = fmt.Sprintf("(=> %s (= (iface_tag %s) 0))", vc.recCalled, vc.recVal)
		}
		vc.oblige("panic", fmt.Sprintf("%s#rethrows@%s", name, anchor), e.Cond, goal, f.pos(e.Pos), "a panic handler that has recovered a panic does not return normally (it panics again)")
	}
	env := f.envPost(e.St, f.resultBindings(e))
	for i, en := range con.Ensures {
		if en.Defines {
			continue
		}
		po := vc.obligeLater("post", fmt.Sprintf("%s#post:%d@%s", name, i+1, anchor), e.Cond, env.evalBool(en.E), f.pos(e.Pos), en.Src)
		if len(en.Only) > 0 {
			po.Props = en.Only
			po.Scoped = true
		}
		rn := f.fn.Signature.Results()
		for ri := 0; ri < rn.Len() && ri < len(e.Results); ri++ {
			rv := e.Results[ri]
			if rv.Loc != nil {
				rv = Val{T: f.ptrTerm(rv)}
			}
			rv.Typ = rn.At(ri).Type()
			po.Results = append(po.Results, rv)
		}
	}
	vc.flushDeferred()
	// panics-when conditions must not hold on a normal return
	for i, p := range con.Panics {
		penv := f.envPost(f.entry, nil)
		vc.oblige("panic", fmt.Sprintf("%s#nopanic-when:%d@%s", name, i+1, anchor), e.Cond, not(penv.evalBool(p.When.E)), f.pos(e.Pos), "returns normally although the contract says it panics when "+p.When.Src)
	}
	f.checkFrame(e, anchor)
}

func (f *Frame) checkPanicExit(e Exit) {
	vc := f.vc
	con := f.con
	name := shortFn(f.fn)
	tag := f.exitSite(e)
	if strings.HasPrefix(e.Desc, "explicit panic") {
		f.vc.usedAnchors["panic"] = true
		for _, h := range con.Hints["panic"] {
			// 'at panic assert e': holds whenever one of the function's own panic statements (or one of an
			// inlined callee) is reached; panics propagated from contracted callees are described by those contracts
			f.applyHint(h, e.Cond, e.St, "panic@"+tag)
		}
	}
	if len(con.PanicsWith) > 0 {
		penv := f.envPost(e.St, nil)
		pv := f.termOf(e.PanicVal)
		if pv == "" {
			pv = vc.freshConst("panicval", "Iface")
		}
		penv.vars["panicvalue"] = Val{T: pv, Typ: types.NewInterfaceType(nil, nil)}
		for i, c := range con.PanicsWith {
			vc.oblige("panic", fmt.Sprintf("%s#panics_with:%d@%s", name, i+1, tag), e.Cond, penv.evalBool(c.E), f.pos(e.Pos), "every panic carries a value satisfying: "+c.Src+" ("+e.Desc+")")
		}
	}
	if len(con.Panics) > 0 {
		penv := f.envPost(f.entry, nil)
		var conds []string
		for _, p := range con.Panics {
			conds = append(conds, penv.evalBool(p.When.E))
		}
		vc.oblige("panic", fmt.Sprintf("%s#panic-allowed@%s", name, tag), e.Cond, or(conds...), f.pos(e.Pos), "panic only under the documented condition: "+e.Desc)
		return
	}
	if con.NoPanic {
		vc.oblige("panic", fmt.Sprintf("%s#no_panic@%s", name, tag), e.Cond, "false", f.pos(e.Pos), "unreachable: "+e.Desc)
	}
}

// checkFrame: pre-existing objects not named in modifies are unchanged at return.
func (f *Frame) checkFrame(e Exit, anchor string) {
	vc := f.vc
	con := f.con
	name := shortFn(f.fn)
	env := f.envPost(f.entry, nil)
	mods := f.modTargets(con, env)
	if _, any := mods["*"]; any {
		return
	}
	var comps []string
	for k := range e.St.heap {
		comps = append(comps, k)
	}
	sort.Strings(comps)
	for _, k := range comps {
		now := e.St.heap[k]
		init := q("H0 " + k)
		if et, ok := f.entry.heap[k]; ok {
			init = et
		}
		if now == init {
			continue
		}
		srt := vc.compSorts[k]
		if !strings.HasPrefix(srt, "(Array Int ") {
			// global variable: must be listed
			vc.oblige("frame", fmt.Sprintf("%s#frame:%s@%s", name, k, anchor), e.Cond, fmt.Sprintf("(= %s %s)", now, init), f.pos(e.Pos), "global "+k+" unchanged (not in modifies)")
			continue
		}
		if containsStr(mods[k], "ALL") {
			continue
		}
		if containsStr(mods[k], "POOL") {
			// a set of the pool subsystem: existing objects keep their membership
			goal := fmt.Sprintf("(forall ((r Int)) (=> (and (<= 0 r) (< r %s)) (= (select %s r) (select %s r))))", f.entry.alloc, now, init)
			vc.oblige("frame", fmt.Sprintf("%s#frame:%s@%s", name, k, anchor), e.Cond, goal, f.pos(e.Pos), "the pool subsystem gains only freshly allocated members ("+k+")")
			continue
		}
		var excl []string
		for _, m := range mods[k] {
			if m == "POOLED" {
				excl = append(excl, not(vc.poolArrayAt(f.entry, "r")))
				continue
			}
			excl = append(excl, fmt.Sprintf("(not (= r %s))", m))
		}
		lo := "(<= 0 r)"
		if strings.HasPrefix(k, "E ") {
			lo = "(< 0 r)" // array id 0 is the array of nil / zero-capacity slices: it has no elements to keep
		}
		guard := and(append([]string{lo, fmt.Sprintf("(< r %s)", f.entry.alloc)}, excl...)...)
		goal := fmt.Sprintf("(forall ((r Int)) (=> %s (= (select %s r) (select %s r))))", guard, now, init)
		vc.oblige("frame", fmt.Sprintf("%s#frame:%s@%s", name, k, anchor), e.Cond, goal, f.pos(e.Pos), "objects existing at entry and not named in modifies keep their "+k)
	}
}

func isPointer(t types.Type) bool {
	_, ok := types.Unalias(t).Underlying().(*types.Pointer)
	return ok
}

func (f *Frame) exitSite(e Exit) string {
	// explicit panics may sit in inlined callees: name them by the function containing the position
	pos := f.vc.prog.fset.Position(e.Pos)
	if fn := f.vc.prog.fnAt(e.Pos); fn != nil {
		lines := f.vc.prog.fnLines(fn)
		k := sort.SearchInts(lines, pos.Line)
		return fmt.Sprintf("%s.%d", shortFn(fn), k+1)
	}
	return fmt.Sprintf("L%d", pos.Line)
}

// verifyLemma: a statement over the contracts of several functions (each pure(...) call is replaced by
// the callee's contract), e.g. the agreement of two token-type tables.
func (p *Program) verifyLemma(l *LemmaDecl) (res *FuncResult) {
	name := "lemma " + qualifierPath(l.PkgPath) + "." + l.Name
	res = &FuncResult{Key: name, Con: &Contract{PkgPath: l.PkgPath, Key: name, Props: l.Props, File: l.File, Line: l.Line}}
	vc := newVC(p, name)
	vc.props = l.Props
	res.VC = vc
	defer func() {
		if r := recover(); r != nil {
			if u, ok := r.(unsupported); ok {
				res.Err = u.why
				res.Obligs = vc.obligs
				return
			}
			panic(r)
		}
	}()
	st := &State{cells: map[*ssa.Alloc]string{}, heap: map[string]string{}}
	st.alloc = vc.declare("alloc0", "Int")
	vc.assert(fmt.Sprintf("(>= %s 1)", st.alloc))
	env := &Env{vc: vc, pkg: p.pkgs[l.PkgPath], st: st, old: st, vars: map[string]Val{}}
	for _, prm := range l.Params {
		srt := env.sortOfTypeString(prm.Type)
		gt := env.goTypeOf(prm.Type)
		n := vc.declare("p "+prm.Name, srt)
		if gt != nil {
			vc.assert(vc.typed(n, gt, 3))
		}
		env.vars[prm.Name] = Val{T: n, Typ: gt, Sort: srt}
	}
	for _, r := range l.Requires {
		vc.assert(env.evalBool(r.E))
	}
	vo := &Obligation{Name: name + "#vacuity:requires", Kind: "vacuity", Fn: name, Goal: "false", NAssert: len(vc.asserts), Desc: "lemma hypotheses are satisfiable", ExpectSat: true, vc: vc, Props: l.Props, Pos: token.Position{Filename: l.File, Line: l.Line}}
	vc.obligs = append(vc.obligs, vo)
	for i, en := range l.Ensures {
		vc.obligeLater("post", fmt.Sprintf("%s#post:%d", name, i+1), "true", env.evalBool(en.E), token.Position{Filename: l.File, Line: en.Line}, en.Src)
	}
	vc.flushDeferred()
	res.Obligs = vc.obligs
	for k := range vc.assumed {
		res.Assumed = append(res.Assumed, k)
	}
	sort.Strings(res.Assumed)
	return res
}

// importGlobalInit: the value a package-level variable receives from its initialiser is part of the entry
// state, provided the variable (and what it refers to) is never written outside the package initialiser.
// The initialiser's instructions that build the value (backward slice of the store to the variable) are
// executed symbolically on the entry state.
func (f *Frame) importGlobalInit(name string, st *State) {
	vc := f.vc
	pkg := f.fn.Pkg
	g, ok := pkg.Members[name].(*ssa.Global)
	if !ok {
		unsup("reads_init: %s is not a package-level variable of %s", name, pkg.Pkg.Path())
	}
	if why := vc.prog.globalWrittenOutsideInit(g); why != "" {
		unsup("reads_init %s: the variable may be written after initialisation (%s)", name, why)
	}
	init := pkg.Func("init")
	if init == nil {
		unsup("reads_init: package has no initialiser")
	}
	// backward slice
	inSlice := map[ssa.Instruction]bool{}
	vals := map[ssa.Value]bool{}
	var addVal func(v ssa.Value)
	addVal = func(v ssa.Value) {
		if v == nil || vals[v] {
			return
		}
		vals[v] = true
		if in, ok := v.(ssa.Instruction); ok && in.Parent() == init {
			inSlice[in] = true
			var ops []*ssa.Value
			for _, op := range in.Operands(ops) {
				if op != nil && *op != nil {
					addVal(*op)
				}
			}
		}
	}
	rootOf := func(a ssa.Value) ssa.Value {
		for {
			switch t := a.(type) {
			case *ssa.IndexAddr:
				a = t.X
			case *ssa.FieldAddr:
				a = t.X
			case *ssa.Slice:
				a = t.X
			default:
				return a
			}
		}
	}
	for changed := true; changed; {
		changed = false
		n := len(inSlice)
		for _, b := range init.Blocks {
			for _, in := range b.Instrs {
				switch t := in.(type) {
				case *ssa.Store:
					if t.Addr == ssa.Value(g) || vals[rootOf(t.Addr)] {
						inSlice[in] = true
						addVal(t.Addr)
						addVal(t.Val)
					}
				case *ssa.MapUpdate:
					if vals[t.Map] {
						inSlice[in] = true
						addVal(t.Key)
						addVal(t.Value)
					}
				}
			}
		}
		if len(inSlice) != n {
			changed = true
		}
	}
	sub := &Frame{vc: vc, fn: init, vals: map[ssa.Value]Val{}, params: map[string]Val{}, depth: 1, stack: []*ssa.Function{init}, spec: map[string]Val{},
		edgeCnd: map[*ssa.BasicBlock]map[*ssa.BasicBlock]string{}, parent: nil, label: "init>"}
	for _, b := range init.Blocks {
		for _, in := range b.Instrs {
			if !inSlice[in] {
				continue
			}
			switch in.(type) {
			case *ssa.Call, *ssa.If, *ssa.Jump, *ssa.Return, *ssa.Phi:
				unsup("reads_init %s: initialiser is not a plain composite literal (%T)", name, in)
			}
			sub.instr(in, "true", st)
		}
	}
	vc.note("entry state includes the initial value of " + qualifier(pkg.Pkg) + "." + name + " (executed from the package initialiser; checked never written elsewhere)")
}
