package main

// Symbolic execution of go/ssa (NaiveForm) function bodies into SMT: one pass over the loop-cut CFG
// in topological order, path-insensitive (block path conditions), one named constant per register.

import (
	"fmt"
	"go/constant"
	"go/token"
	"go/types"
	"regexp"
	"sort"
	"strings"

	"golang.org/x/tools/go/ssa"
)

type edge struct {
	from *ssa.BasicBlock
	cond string
	st   *State
}

type Exit struct {
	Panic    bool
	Cond     string
	St       *State
	Results  []Val
	PanicVal Val // Iface term
	Pos      token.Pos
	Desc     string
	RetIdx   int // index of the return statement (source order), 0 = implicit
}

type loopInfo struct {
	head  *ssa.BasicBlock
	index int
	body  map[*ssa.BasicBlock]bool
	spec  *LoopSpec
	// filled while executing
	measures  []string
	oldAtHead *State
	framed    []string
	headState *State
}

type deferRec struct {
	ins      *ssa.Defer
	owner    *Frame
	args     []Val
	fv       Val
	bindings []Val
}

// unwindCtx: a panic is being unwound through this frame's deferred calls.
type unwindCtx struct {
	val       string // panic value (Iface term)
	active    string // condition under which the panic is in flight
	recovered string // condition under which recover() has been called
}

type writeRec struct {
	cells map[*ssa.Alloc]bool
	comps map[string]bool
	alloc bool
	all   bool
}

func newWriteRec() *writeRec {
	return &writeRec{cells: map[*ssa.Alloc]bool{}, comps: map[string]bool{}}
}

type Frame struct {
	pendingFree  []Val // free-variable values of the closure about to be called through its contract
	thinCalls    bool  // inside a dynamic dispatch over many candidates: assume only unscoped ensures
	vc           *VC
	fn           *ssa.Function
	con          *Contract
	vals         map[ssa.Value]Val
	params       map[string]Val // entry values of parameters (and receiver) by source name
	entry        *State
	depth        int
	top          bool
	dry          bool
	rec          *writeRec
	exits        []Exit
	loops        map[*ssa.BasicBlock]*loopInfo
	retIdx       map[*ssa.Return]int
	callIdx      map[ssa.Instruction]int
	stack        []*ssa.Function
	spec         map[string]Val // ghosts, lets
	edgeCnd      map[*ssa.BasicBlock]map[*ssa.BasicBlock]string
	defers       []*ssa.Defer
	label        string // prefix for obligation names
	parent       *Frame
	entryMeasure []string // termination measure of the function under verification at entry (function-level decreases)
	unwinding    *unwindCtx
	prevState    *State
	mods         map[string][]string
}

func (f *Frame) pos(p token.Pos) token.Position {
	if !p.IsValid() {
		p = f.fn.Pos()
	}
	return f.vc.prog.fset.Position(p)
}

func (f *Frame) posTag(p token.Pos) string {
	ps := f.pos(p)
	return fmt.Sprintf("L%d", ps.Line)
}

func shortFn(fn *ssa.Function) string {
	if fn.Pkg == nil {
		return fn.String()
	}
	return qualifier(fn.Pkg.Pkg) + "." + fn.RelString(fn.Pkg.Pkg)
}

// ---------------------------------------------------------------------------------------------
// CFG helpers

func isBackEdge(from, to *ssa.BasicBlock) bool { return to.Dominates(from) }

func (f *Frame) analyseLoops() {
	f.loops = map[*ssa.BasicBlock]*loopInfo{}
	fn := f.fn
	for _, b := range fn.Blocks {
		for _, s := range b.Succs {
			if isBackEdge(b, s) {
				li := f.loops[s]
				if li == nil {
					li = &loopInfo{head: s, body: map[*ssa.BasicBlock]bool{s: true}}
					f.loops[s] = li
				}
				// natural loop: all blocks that reach b without passing through s
				var stack []*ssa.BasicBlock
				if !li.body[b] {
					li.body[b] = true
					stack = append(stack, b)
				}
				for len(stack) > 0 {
					x := stack[len(stack)-1]
					stack = stack[:len(stack)-1]
					for _, p := range x.Preds {
						if !li.body[p] {
							li.body[p] = true
							stack = append(stack, p)
						}
					}
				}
			}
		}
	}
	// number loops by source position of their header's first positioned instruction
	var heads []*ssa.BasicBlock
	for h := range f.loops {
		heads = append(heads, h)
	}
	sort.Slice(heads, func(i, j int) bool {
		pi, pj := loopPos(f.loops[heads[i]]), loopPos(f.loops[heads[j]])
		if pi != pj {
			return pi < pj
		}
		return heads[i].Index < heads[j].Index
	})
	for i, h := range heads {
		f.loops[h].index = i + 1
		if f.con != nil {
			f.loops[h].spec = f.con.Loops[i+1]
		}
	}
}

func loopPos(li *loopInfo) token.Pos {
	// smallest valid position of any instruction in the loop
	var best token.Pos
	for b := range li.body {
		for _, in := range b.Instrs {
			p := in.Pos()
			if p.IsValid() && (best == 0 || p < best) {
				best = p
			}
		}
	}
	return best
}

func topoOrder(fn *ssa.Function) []*ssa.BasicBlock {
	seen := map[*ssa.BasicBlock]bool{}
	var post []*ssa.BasicBlock
	var dfs func(b *ssa.BasicBlock)
	dfs = func(b *ssa.BasicBlock) {
		seen[b] = true
		for _, s := range b.Succs {
			if isBackEdge(b, s) || seen[s] {
				continue
			}
			dfs(s)
		}
		post = append(post, b)
	}
	if len(fn.Blocks) > 0 {
		dfs(fn.Blocks[0])
	}
	if fn.Recover != nil && !seen[fn.Recover] {
		// recover block is handled separately
	}
	for i, j := 0, len(post)-1; i < j; i, j = i+1, j-1 {
		post[i], post[j] = post[j], post[i]
	}
	return post
}

// ---------------------------------------------------------------------------------------------

// run executes the blocks in `order` (restricted to `within` if non-nil) starting from the given incoming edges.
func (f *Frame) run(order []*ssa.BasicBlock, in map[*ssa.BasicBlock][]edge, within map[*ssa.BasicBlock]bool, dryHead *ssa.BasicBlock) {
	vc := f.vc
	for _, b := range order {
		if within != nil && !within[b] {
			continue
		}
		edges := in[b]
		if len(edges) == 0 {
			continue
		}
		var conds []string
		var states []*State
		for _, e := range edges {
			conds = append(conds, e.cond)
			states = append(states, e.st)
		}
		pc := vc.define("pc "+f.label+b.String(), "Bool", or(conds...))
		if f.edgeCnd[b] == nil {
			f.edgeCnd[b] = map[*ssa.BasicBlock]string{}
		}
		for _, e := range edges {
			if e.from != nil {
				f.edgeCnd[b][e.from] = e.cond
			}
		}
		st := vc.mergeStates(conds, states)
		if li := f.loops[b]; li != nil && b != dryHead && !f.dry {
			st = f.loopHead(li, pc, st, order)
		}
		cur := pc
		addEdge := func(to *ssa.BasicBlock, cond string, s *State) {
			if isBackEdge(b, to) {
				if f.dry {
					if to == dryHead && s.wr != nil {
						f.rec.merge(s.wr)
					}
					return
				}
				f.backEdge(f.loops[to], cond, s, b)
				return
			}
			if within != nil && !within[to] {
				return
			}
			if cond == "false" {
				return // statically unreachable
			}
			in[to] = append(in[to], edge{b, cond, s})
		}
		terminated := false
		for _, ins := range b.Instrs {
			switch t := ins.(type) {
			case *ssa.If:
				c := f.val(t.Cond).T
				addEdge(b.Succs[0], and(cur, c), st)
				addEdge(b.Succs[1], and(cur, not(c)), st.clone())
				terminated = true
			case *ssa.Jump:
				addEdge(b.Succs[0], cur, st)
				terminated = true
			case *ssa.Return:
				var rs []Val
				for _, r := range t.Results {
					rs = append(rs, f.val(r))
				}
				f.exits = append(f.exits, Exit{Cond: cur, St: st, Results: rs, Pos: t.Pos(), RetIdx: f.retIdx[t]})
				terminated = true
			case *ssa.Panic:
				pv := f.val(t.X)
				f.exits = append(f.exits, Exit{Panic: true, Cond: cur, St: st, PanicVal: pv, Pos: t.Pos(), Desc: "explicit panic at " + f.pos(t.Pos()).String()})
				terminated = true
			default:
				cur = f.instr(ins, cur, st)
			}
			if terminated {
				break
			}
		}
	}
}

// loopHead: assert invariants on entry, havoc the loop-modified state, assume invariants.
func (f *Frame) loopHead(li *loopInfo, pc string, st *State, order []*ssa.BasicBlock) *State {
	vc := f.vc
	if li.spec == nil {
		if f.top || f.con != nil {
			unsup("loop#%d of %s has no invariant", li.index, shortFn(f.fn))
		}
		unsup("loop#%d of inlined %s has no invariant (give %s a contract)", li.index, shortFn(f.fn), shortFn(f.fn))
	}
	// 1. dry run to find what the loop writes
	rec := newWriteRec()
	dry := *f
	dry.vc = newVC(vc.prog, vc.fnName+"/dry")
	dry.vc.counter = 1000000
	dry.dry = true
	dry.rec = rec
	dry.exits = nil
	dry.edgeCnd = map[*ssa.BasicBlock]map[*ssa.BasicBlock]string{}
	dry.vals = make(map[ssa.Value]Val, len(f.vals))
	for k, v := range f.vals {
		dry.vals[k] = v
	}
	func() {
		ds := st.clone()
		ds.wr = newWriteRec()
		dry.run(order, map[*ssa.BasicBlock][]edge{li.head: {{nil, "true", ds}}}, li.body, li.head)
	}()
	// 2. invariants on entry
	tag := fmt.Sprintf("loop%d", li.index)
	for _, hnt := range f.conHints(fmt.Sprintf("loop#%d.entry", li.index)) {
		f.applyHint(hnt, pc, st, tag+".entry")
	}
	for i, inv := range li.spec.Invariants {
		env := f.env(st)
		t, msg := tryEvalBool(env, inv.E)
		if msg != "" {
			// the invariant no longer talks about this code (e.g. a local it names is gone): it fails as an
			// obligation of its own and the loop is verified with the remaining invariants
			vc.oblige("inv-entry", fmt.Sprintf("%s#inv:%s.%d/stale", f.obFn(), tag, i+1), pc, vc.freshConst("stale", "Bool"), f.pos(loopPos(li)), "loop invariant cannot be evaluated on this code ("+msg+"): "+inv.Src)
			continue
		}
		vc.oblige("inv-entry", fmt.Sprintf("%s#inv:%s.%d/entry", f.obFn(), tag, i+1), pc, t, f.pos(loopPos(li)), inv.Src)
	}
	// 2b. automatic frame invariant: what the function's modifies clause protects stays protected
	//     inside the loop (asserted on entry and at every back edge, assumed after the havoc)
	frameOf := func(s *State, comp string) string { return f.frameFormula(s, comp) }
	// 3. havoc
	h := st.clone()
	var cs []*ssa.Alloc
	for a := range rec.cells {
		cs = append(cs, a)
	}
	sort.Slice(cs, func(i, j int) bool { return cs[i].Name() < cs[j].Name() })
	for _, a := range cs {
		if _, ok := h.cells[a]; ok {
			et := a.Type().(*types.Pointer).Elem()
			nv := vc.freshConst("hv "+a.Comment, vc.sortOf(et))
			h.cells[a] = nv
			vc.assert(vc.typed(nv, et, 2))
		}
	}
	var comps, havocked []string
	if rec.all {
		for k := range vc.compSorts {
			comps = append(comps, k)
		}
	} else {
		for k := range rec.comps {
			comps = append(comps, k)
		}
	}
	sort.Strings(comps)
	for _, k := range comps {
		srt, ok := vc.compSorts[k]
		if !ok {
			srt = vc.prog.compSortHint(vc, k) // declares the sorts it mentions in this VC
			if srt == "" {
				srt = dry.vc.compSorts[k]
				if t := dry.vc.compTypes[k]; t != nil {
					vc.sortOf(t)
					vc.compTypes[k] = t
				}
			}
			if srt == "" {
				continue
			}
			vc.compSorts[k] = srt
			vc.comp(st, k, srt) // declares initial version
		}
		if srt == "" {
			continue
		}
		h.heap[k] = vc.freshConst("hv "+k, srt)
		havocked = append(havocked, k)
	}
	if rec.alloc || rec.all {
		na := vc.freshConst("alloc", "Int")
		vc.assert(fmt.Sprintf("(>= %s %s)", na, st.alloc))
		h.alloc = na
	}
	poolTouched := false
	for _, k := range havocked {
		if k == poolBufsComp || k == poolArraysComp || k == bufArrComp {
			poolTouched = true
		}
	}
	if poolTouched {
		bufs, arrays, ba := vc.poolComps(h)
		vc.poolWF(bufs, arrays, ba, h.alloc)
	}
	for _, k := range havocked {
		vc.assertCompWF(h.heap[k], k, h.alloc)
		if ff := frameOf(st, k); ff != "" {
			vc.oblige("frame", fmt.Sprintf("%s#frame:%s@%s/entry", f.obFn(), k, tag), pc, ff, f.pos(loopPos(li)), "frame of the enclosing function holds when the loop is entered ("+k+")")
		}
		if ff := frameOf(h, k); ff != "" {
			vc.assume(pc, ff)
		}
	}
	li.framed = havocked
	// 4. assume invariants
	env := f.env(h)
	for _, inv := range li.spec.Invariants {
		if t, msg := tryEvalBool(env, inv.E); msg == "" {
			vc.assume(pc, t)
		}
	}
	for _, hnt := range li.spec.Hints {
		f.applyHint(hnt, pc, h, fmt.Sprintf("%s.hint", tag))
	}
	li.headState = h.clone()
	li.measures = nil
	for _, d := range li.spec.Decreases {
		li.measures = append(li.measures, vc.define("measure", "Int", env.eval(d.E).T))
	}
	return h
}

func (f *Frame) backEdge(li *loopInfo, cond string, st *State, from *ssa.BasicBlock) {
	vc := f.vc
	tag := fmt.Sprintf("loop%d", li.index)
	env := f.env(st)
	f.prevState = li.headState
	for _, hnt := range f.conHints(fmt.Sprintf("loop#%d.back", li.index)) {
		f.applyHint(hnt, cond, st, tag+".back")
	}
	f.prevState = nil
	for i, inv := range li.spec.Invariants {
		t, msg := tryEvalBool(env, inv.E)
		if msg != "" {
			continue
		}
		vc.oblige("inv-preserve", fmt.Sprintf("%s#inv:%s.%d/preserve", f.obFn(), tag, i+1), cond, t, f.pos(loopPos(li)), inv.Src)
	}
	for _, k := range li.framed {
		if ff := f.frameFormula(st, k); ff != "" {
			vc.oblige("frame", fmt.Sprintf("%s#frame:%s@%s/preserve", f.obFn(), k, tag), cond, ff, f.pos(loopPos(li)), "loop body respects the frame of the enclosing function ("+k+")")
		}
	}
	if len(li.spec.Decreases) > 0 {
		// lexicographic decrease, each component bounded below by 0
		var lex string = "false"
		for i := len(li.spec.Decreases) - 1; i >= 0; i-- {
			m1 := env.eval(li.spec.Decreases[i].E).T
			m0 := li.measures[i]
			lex = fmt.Sprintf("(or (and (< %s %s) (>= %s 0)) (and (= %s %s) %s))", m1, m0, m0, m1, m0, lex)
		}
		vc.oblige("dec", fmt.Sprintf("%s#dec:%s", f.obFn(), tag), cond, lex, f.pos(loopPos(li)), "loop measure decreases and is bounded below")
	} else if f.top && !f.dry {
		vc.notes = append(vc.notes, fmt.Sprintf("termination of loop#%d of %s not proved (no decreases clause)", li.index, shortFn(f.fn)))
	}
}

// tryEvalBool evaluates a spec expression; a spec-level evaluation error (unknown name, ...) is returned
// as a message instead of aborting the translation of the whole function.
func tryEvalBool(env *Env, e Expr) (t string, msg string) {
	defer func() {
		if r := recover(); r != nil {
			if u, ok := r.(unsupported); ok && strings.HasPrefix(u.why, "spec:") {
				msg = u.why
				return
			}
			panic(r)
		}
	}()
	return env.evalBool(e), ""
}

func (f *Frame) conHints(anchor string) []Hint {
	if f.con == nil {
		return nil
	}
	if len(f.con.Hints[anchor]) > 0 {
		f.vc.usedAnchors[anchor] = true
	}
	return f.con.Hints[anchor]
}

func (f *Frame) applyHint(h Hint, pc string, st *State, where string) {
	f.applyHintCon(f.con, h, pc, st, where)
}

func (f *Frame) applyHintCon(con *Contract, h Hint, pc string, st *State, where string) {
	env := f.env(st)
	env.prev = f.prevState
	if f.parent != nil {
		// inlined frame: contract-level names of the function under verification stay visible
		for k, v := range f.root().spec {
			if _, ok := env.vars[k]; !ok {
				env.vars[k] = v
			}
		}
	}
	if h.Kind == "set" || h.Kind == "setdef" {
		f.execSet(h, pc, st, env)
		return
	}
	if h.Kind == "bind" {
		v := env.pinContent(env.eval(h.E))
		if len(v.T) > 30 {
			v.T = f.vc.define("bind "+h.Bind, v.sort(f.vc), v.T)
		}
		f.root().spec[h.Bind] = v
		return
	}
	t := env.evalBool(h.E)
	switch h.Kind {
	case "use":
		// must be an instance of a proved lemma or an unfolding of a spec function: checked syntactically
		call, ok := h.E.(ECall)
		if !ok || (!f.vc.prog.prelude.isLemma(call.Fn) && call.Fn != "keys_subset_len" && call.Fn != "keys_subset2_len") {
			unsup("'use' hint must be a lemma or unfolding instance: %s", h.Src)
		}
		f.vc.assume(pc, t)
	case "assume":
		// an unchecked assumption: listed in the evidence (contract.go appends it to Assumes)
		f.vc.assume(pc, t)
	case "assert":
		f.vc.oblige("assert", fmt.Sprintf("%s#assert:%s", f.obFn(), where), pc, t, token.Position{Filename: con.File, Line: h.Line}, h.Src)
	}
}

// ---------------------------------------------------------------------------------------------
// values

func (f *Frame) val(v ssa.Value) Val {
	switch t := v.(type) {
	case *ssa.Const:
		return f.constVal(t)
	case *ssa.Global:
		return Val{Loc: &Loc{Kind: LocGlobal, Global: t, Typ: t.Type().(*types.Pointer).Elem()}, Typ: t.Type()}
	case *ssa.Function:
		ft := fmt.Sprintf("(mk_fn %d 0)", f.vc.fnID(t))
		f.vc.fnOfTerm[ft] = t
		return Val{T: ft, Typ: t.Type(), Fn: t}
	case *ssa.Builtin:
		unsup("builtin %s used as value", t.Name())
	}
	r, ok := f.vals[v]
	if !ok {
		unsup("use of undefined SSA value %s (%T) in %s", v.Name(), v, shortFn(f.fn))
	}
	return r
}

func (vc *VC) fnID(fn *ssa.Function) int {
	if id, ok := vc.fnIDs[fn]; ok {
		return id
	}
	id := vc.prog.fnID(fn)
	vc.fnIDs[fn] = id
	return id
}

func (f *Frame) constVal(c *ssa.Const) Val {
	vc := f.vc
	t := c.Type()
	if c.Value == nil {
		// zero value / nil
		return Val{T: vc.zero(t), Typ: t}
	}
	switch c.Value.Kind() {
	case constant.Bool:
		return Val{T: fmt.Sprint(constant.BoolVal(c.Value)), Typ: t}
	case constant.Int:
		if isInteger(t) {
			return Val{T: smtInt(c.Value.ExactString()), Typ: t}
		}
		return Val{T: vc.freshConst("floatconst", "Float"), Typ: t}
	case constant.String:
		return Val{T: vc.strLit(constant.StringVal(c.Value)), Typ: t}
	case constant.Float, constant.Complex:
		return Val{T: vc.freshConst("floatconst", "Float"), Typ: t}
	}
	unsup("constant %s", c)
	return Val{}
}

// strLit declares a constant for a string literal with its defining axioms.
func (vc *VC) strLit(s string) string {
	if s == "" {
		return "str_empty"
	}
	if n, ok := vc.litCache[s]; ok {
		return n
	}
	name := "lit " + fmt.Sprintf("%q", s)
	if len(name) > 40 {
		name = fmt.Sprintf("lit#%d %.24q", len(vc.litCache), s)
	}
	n := vc.declare(name, "Str")
	vc.litCache[s] = n
	var facts []string
	facts = append(facts, fmt.Sprintf("(= (slen %s) %d)", n, len(s)))
	for i := 0; i < len(s); i++ {
		facts = append(facts, fmt.Sprintf("(= (sat %s %d) %d)", n, i, s[i]))
	}
	vc.assert(and(facts...))
	vc.litContent(n, s)
	return n
}

func (vc *VC) litContent(n, s string) {
	if vc.prog.litOf == nil {
		vc.prog.litOf = map[string]string{}
	}
	vc.prog.litOf[n] = s
}

// a term that mentions a quantifier variable (q_name) or the parameter of a closed predicate (x!k)
var reBoundVar = regexp.MustCompile(`(^|[ (])(q_[A-Za-z0-9_]+|x![0-9]+)([ )]|$)`)

// streq: Go string equality. Against a literal it is expanded (ground extensionality instance).
func (vc *VC) streq(a, b string) string {
	if a == b {
		return "true"
	}
	la, oka := vc.prog.litOf[a]
	lb, okb := vc.prog.litOf[b]
	if a == "str_empty" {
		la, oka = "", true
	}
	if b == "str_empty" {
		lb, okb = "", true
	}
	if oka && okb {
		return fmt.Sprint(la == lb)
	}
	if okb {
		a, b, la, oka = b, a, lb, true
	}
	if oka {
		// a literal with content la, b arbitrary
		facts := []string{fmt.Sprintf("(= (slen %s) %d)", b, len(la))}
		for i := 0; i < len(la); i++ {
			facts = append(facts, fmt.Sprintf("(= (sat %s %d) %d)", b, i, la[i]))
		}
		exp := and(facts...)
		eq := fmt.Sprintf("(= %s %s)", b, a)
		if reBoundVar.MatchString(b) {
			// b mentions a bound variable (quantifier / closed-predicate parameter): the ground instance cannot be
			// stated outside its binder; plain equality is what remains
			return eq
		}
		vc.assert(fmt.Sprintf("(= %s %s)", eq, exp))
		return eq
	}
	return fmt.Sprintf("(= %s %s)", a, b)
}

// typed returns the well-typedness facts of a term of a Go type (ranges of integers, slice headers,
// reference bounds), to the given struct nesting depth.
func (vc *VC) typed(term string, t types.Type, depth int) string {
	t = types.Unalias(t)
	switch u := t.Underlying().(type) {
	case *types.Basic:
		if lo, hi, ok := intRange(t); ok {
			return fmt.Sprintf("(and (<= %s %s) (<= %s %s))", lo, term, term, hi)
		}
	case *types.Slice:
		return fmt.Sprintf("(and (wf_slice %s) (<= (* (cap %s) %d) 281474976710656))", term, term, elemSize(u.Elem()))
	case *types.Pointer, *types.Map:
		return fmt.Sprintf("(>= %s 0)", term)
	case *types.Struct:
		if depth <= 0 {
			return "true"
		}
		name := typeName(t)
		vc.structSort(name, u)
		var fs []string
		for i := 0; i < u.NumFields(); i++ {
			fs = append(fs, vc.typed(fmt.Sprintf("(%s %s)", fieldSel(name, u.Field(i).Name(), i), term), u.Field(i).Type(), depth-1))
		}
		return and(fs...)
	}
	return "true"
}

// refsBelow: all references reachable in one step from the term are below the allocation counter.
func (vc *VC) refsBelow(term string, t types.Type, alloc string, depth int) string {
	t = types.Unalias(t)
	switch u := t.Underlying().(type) {
	case *types.Slice:
		return fmt.Sprintf("(< (arr %s) %s)", term, alloc)
	case *types.Pointer, *types.Map:
		return fmt.Sprintf("(< %s %s)", term, alloc)
	case *types.Struct:
		if depth <= 0 {
			return "true"
		}
		name := typeName(t)
		var fs []string
		for i := 0; i < u.NumFields(); i++ {
			fs = append(fs, vc.refsBelow(fmt.Sprintf("(%s %s)", fieldSel(name, u.Field(i).Name(), i), term), u.Field(i).Type(), alloc, depth-1))
		}
		return and(fs...)
	}
	return "true"
}

// ---------------------------------------------------------------------------------------------
// locations

func (f *Frame) toLoc(v Val) *Loc {
	if v.Loc != nil {
		return v.Loc
	}
	pt, ok := types.Unalias(v.Typ).Underlying().(*types.Pointer)
	if !ok {
		unsup("not a pointer: %s", v.Typ)
	}
	return &Loc{Kind: LocRef, Ref: v.T, Typ: pt.Elem()}
}

// ptrTerm: SMT reference for a pointer value that must be stored / compared / passed.
func (f *Frame) ptrTerm(v Val) string {
	if v.Loc == nil {
		return v.T
	}
	switch v.Loc.Kind {
	case LocRef:
		return v.Loc.Ref
	case LocArray:
		return v.Loc.Ref
	}
	unsup("address of a local/field/element escapes as a value in %s (kind %d)", shortFn(f.fn), v.Loc.Kind)
	return ""
}

func (f *Frame) termOf(v Val) string {
	if v.Loc != nil {
		return f.ptrTerm(v)
	}
	return v.T
}

// Write recording (dry runs only): the set of cells / components written along the paths that reach a
// given state. Only states arriving at a back edge contribute to the loop's havoc set, so writes on
// paths that leave the loop (returns, panics, error exits) do not blur the loop head.
func (f *Frame) noteWriteSt(st *State, l *Loc) {
	if st.wr == nil {
		return
	}
	switch l.Kind {
	case LocLocal:
		st.wr.cells[l.Alloc] = true
	case LocField:
		f.noteWriteSt(st, l.Base)
	}
}

func (f *Frame) noteCompSt(st *State, name string) {
	if st.wr != nil {
		st.wr.comps[name] = true
	}
}

func (w *writeRec) clone() *writeRec {
	n := newWriteRec()
	n.merge(w)
	return n
}

func (w *writeRec) merge(o *writeRec) {
	for k := range o.cells {
		w.cells[k] = true
	}
	for k := range o.comps {
		w.comps[k] = true
	}
	w.alloc = w.alloc || o.alloc
	w.all = w.all || o.all
}

func (f *Frame) load(l *Loc, st *State, pc string, pos token.Pos) string {
	vc := f.vc
	switch l.Kind {
	case LocLocal:
		t, ok := st.cells[l.Alloc]
		if !ok {
			// cell of an alloc whose definition was not executed on this path (cannot happen in well-formed SSA)
			t = vc.zero(l.Typ)
		}
		return t
	case LocGlobal:
		return vc.comp(st, globalComp(l.Global), vc.sortOf(l.Typ))
	case LocRef:
		f.nilCheck(l.Ref, pc, pos)
		if sty, name, ok := structOf(l.Typ); ok {
			vc.structSort(name, sty)
			if sty.NumFields() == 0 {
				return q("mk " + name)
			}
			var fs []string
			for i := 0; i < sty.NumFields(); i++ {
				c := vc.comp(st, fieldComp(name, sty.Field(i).Name()), vc.fieldCompSort(sty.Field(i).Type()), sty.Field(i).Type())
				fs = append(fs, fmt.Sprintf("(select %s %s)", c, l.Ref))
			}
			return "(" + q("mk "+name) + " " + strings.Join(fs, " ") + ")"
		}
		c := vc.comp(st, cellComp(l.Typ), "(Array Int "+vc.sortOf(l.Typ)+")")
		return fmt.Sprintf("(select %s %s)", c, l.Ref)
	case LocField:
		sty, name, _ := structOf(l.Base.Typ)
		if l.Base.Kind == LocRef {
			f.nilCheck(l.Base.Ref, pc, pos)
			c := vc.comp(st, fieldComp(name, sty.Field(l.Field).Name()), vc.fieldCompSort(sty.Field(l.Field).Type()), sty.Field(l.Field).Type())
			if sd, ok := vc.storeDefs[c]; ok && sd[1] == l.Base.Ref {
				return sd[2] // read over the write just made to the same object (keeps statically known values)
			}
			lt := fmt.Sprintf("(select %s %s)", c, l.Base.Ref)
			if _, isFn := types.Unalias(sty.Field(l.Field).Type()).Underlying().(*types.Signature); isFn {
				if set := vc.fnSetAt(c, l.Base.Ref, 0); len(set) > 0 {
					vc.fnSetOfTerm[lt] = set // every path to here stored one of these functions
				}
			}
			return lt
		}
		vc.structSort(name, sty)
		return fmt.Sprintf("(%s %s)", fieldSel(name, sty.Field(l.Field).Name(), l.Field), f.load(l.Base, st, pc, pos))
	case LocElem:
		c := vc.comp(st, elemComp(l.Typ), vc.elemCompSort(l.Typ), l.Typ)
		return fmt.Sprintf("(select (select %s %s) %s)", c, l.Arr, l.Idx)
	case LocArray:
		unsup("load of whole array through pointer")
	}
	unsup("load from location kind %d", l.Kind)
	return ""
}

func (f *Frame) nilCheck(ref, pc string, pos token.Pos) {
	if f.dry || ref == "" {
		return
	}
	if f.vc.nonNil[ref] || f.vc.nonNil[ref+"@"+pc] {
		return
	}
	if f.root().con != nil && (f.root().con.MayPanic || f.root().con.Rethrows) {
		f.vc.assume(pc, fmt.Sprintf("(not (= %s 0))", ref))
		f.vc.nonNil[ref+"@"+pc] = true
		return
	}
	f.vc.oblige("safe", fmt.Sprintf("%s#safe:nil@%s", f.vc.fnName, f.site(pos)), pc, fmt.Sprintf("(not (= %s 0))", ref), f.pos(pos), "nil pointer dereference")
	f.vc.nonNil[ref+"@"+pc] = true
}

func (f *Frame) store(l *Loc, v string, st *State, pc string, pos token.Pos) {
	vc := f.vc
	f.noteWriteSt(st, l)
	switch l.Kind {
	case LocLocal:
		st.cells[l.Alloc] = v
	case LocGlobal:
		name := globalComp(l.Global)
		vc.comp(st, name, vc.sortOf(l.Typ))
		f.noteCompSt(st, name)
		st.heap[name] = v
	case LocRef:
		f.nilCheck(l.Ref, pc, pos)
		if sty, name, ok := structOf(l.Typ); ok {
			vc.structSort(name, sty)
			v = vc.define("sv", vc.sortOf(l.Typ), v)
			for i := 0; i < sty.NumFields(); i++ {
				cn := fieldComp(name, sty.Field(i).Name())
				c := vc.comp(st, cn, vc.fieldCompSort(sty.Field(i).Type()), sty.Field(i).Type())
				f.noteCompSt(st, cn)
				st.heap[cn] = vc.define("h", vc.compSorts[cn], fmt.Sprintf("(store %s %s (%s %s))", c, l.Ref, fieldSel(name, sty.Field(i).Name(), i), v))
			}
			return
		}
		cn := cellComp(l.Typ)
		c := vc.comp(st, cn, "(Array Int "+vc.sortOf(l.Typ)+")")
		f.noteCompSt(st, cn)
		st.heap[cn] = vc.define("h", vc.compSorts[cn], fmt.Sprintf("(store %s %s %s)", c, l.Ref, v))
	case LocField:
		sty, name, _ := structOf(l.Base.Typ)
		if l.Base.Kind == LocRef {
			f.nilCheck(l.Base.Ref, pc, pos)
			cn := fieldComp(name, sty.Field(l.Field).Name())
			c := vc.comp(st, cn, vc.fieldCompSort(sty.Field(l.Field).Type()), sty.Field(l.Field).Type())
			f.noteCompSt(st, cn)
			hv := vc.define("h", vc.compSorts[cn], fmt.Sprintf("(store %s %s %s)", c, l.Base.Ref, v))
			vc.storeDefs[hv] = [3]string{c, l.Base.Ref, v}
			st.heap[cn] = hv
			return
		}
		vc.structSort(name, sty)
		old := vc.define("sb", vc.sortOf(l.Base.Typ), f.load(l.Base, st, pc, pos))
		var fs []string
		for i := 0; i < sty.NumFields(); i++ {
			if i == l.Field {
				fs = append(fs, v)
			} else {
				fs = append(fs, fmt.Sprintf("(%s %s)", fieldSel(name, sty.Field(i).Name(), i), old))
			}
		}
		f.store(l.Base, "("+q("mk "+name)+" "+strings.Join(fs, " ")+")", st, pc, pos)
	case LocElem:
		if lits, ok := vc.arrayLits[l.Arr]; ok {
			var k int
			if _, err := fmt.Sscanf(l.Idx, "%d", &k); err == nil && fmt.Sprint(k) == l.Idx && k >= 0 && k < len(lits) {
				lits[k] = v
			} else {
				delete(vc.arrayLits, l.Arr)
			}
		}
		cn := elemComp(l.Typ)
		c := vc.comp(st, cn, vc.elemCompSort(l.Typ), l.Typ)
		f.noteCompSt(st, cn)
		st.heap[cn] = vc.define("h", vc.compSorts[cn], fmt.Sprintf("(store %s %s (store (select %s %s) %s %s))", c, l.Arr, c, l.Arr, l.Idx, v))
	default:
		unsup("store to location kind %d", l.Kind)
	}
}

// newRef allocates a fresh reference.
func (f *Frame) newRef(st *State, what string) string {
	vc := f.vc
	r := vc.define("new "+what, "Int", st.alloc)
	st.alloc = vc.define("alloc", "Int", fmt.Sprintf("(+ %s 1)", st.alloc))
	if st.wr != nil {
		st.wr.alloc = true
	}
	vc.nonNil[r] = true
	vc.fresh_[r] = true
	return r
}

// ---------------------------------------------------------------------------------------------
// instructions

func (f *Frame) setVal(v ssa.Value, t string) {
	vc := f.vc
	typ := v.Type()
	if _, isTuple := typ.(*types.Tuple); isTuple {
		unsup("setVal on tuple")
	}
	name := vc.define(f.label+v.Name(), vc.sortOf(typ), t)
	f.vals[v] = Val{T: name, Typ: typ}
}

func (f *Frame) instr(ins ssa.Instruction, pc string, st *State) string {
	vc := f.vc
	switch t := ins.(type) {
	case *ssa.DebugRef:
	case *ssa.Alloc:
		et := t.Type().(*types.Pointer).Elem()
		if !t.Heap {
			st.cells[t] = vc.zero(et)
			if st.wr != nil {
				st.wr.cells[t] = true
			}
			f.vals[t] = Val{Loc: &Loc{Kind: LocLocal, Alloc: t, Typ: et}, Typ: t.Type()}
			break
		}
		if at, ok := et.Underlying().(*types.Array); ok {
			id := f.newRef(st, "array")
			cn := elemComp(at.Elem())
			c := vc.comp(st, cn, vc.elemCompSort(at.Elem()), at.Elem())
			f.noteCompSt(st, cn)
			st.heap[cn] = vc.define("h", vc.compSorts[cn], fmt.Sprintf("(store %s %s ((as const (Array Int %s)) %s))", c, id, vc.sortOf(at.Elem()), vc.zero(at.Elem())))
			f.vals[t] = Val{Loc: &Loc{Kind: LocArray, Ref: id, Typ: et}, Typ: t.Type()}
			if at.Len() <= 16 {
				lits := make([]string, at.Len())
				for k := range lits {
					lits[k] = vc.zero(at.Elem())
				}
				vc.arrayLits[id] = lits
			}
			break
		}
		r := f.newRef(st, t.Comment)
		l := &Loc{Kind: LocRef, Ref: r, Typ: et}
		f.store(l, vc.zero(et), st, pc, t.Pos())
		f.vals[t] = Val{Loc: l, Typ: t.Type()}
	case *ssa.Store:
		l := f.toLoc(f.val(t.Addr))
		sv := f.val(t.Val)
		if sv.Loc != nil && sv.Loc.Kind != LocRef && sv.Loc.Kind != LocArray && l.Kind == LocRef && vc.fresh_[l.Ref] {
			// interior pointer stored into a freshly allocated cell (spilled parameter, captured variable)
			if st.ptrCells == nil {
				st.ptrCells = map[string]*Loc{}
			}
			st.ptrCells[l.Ref] = sv.Loc
			f.store(l, vc.freshConst("iptr", "Int"), st, pc, t.Pos())
			break
		}
		if l.Kind == LocRef && st.ptrCells != nil {
			delete(st.ptrCells, l.Ref)
		}
		if l.Kind == LocRef {
			if st.fnCells != nil {
				delete(st.fnCells, l.Ref)
			}
			fn := sv.Fn
			if fn == nil {
				fn = vc.fnOfTerm[sv.T]
			}
			if fn != nil && vc.fresh_[l.Ref] {
				if st.fnCells == nil {
					st.fnCells = map[string]*ssa.Function{}
				}
				st.fnCells[l.Ref] = fn
			}
		}
		f.store(l, f.termOf(sv), st, pc, t.Pos())
	case *ssa.UnOp:
		f.unop(t, pc, st)
	case *ssa.BinOp:
		f.binop(t, pc, st)
	case *ssa.Phi:
		var conds, ts []string
		for i, e := range t.Edges {
			p := t.Block().Preds[i]
			c, ok := f.edgeCnd[t.Block()][p]
			if !ok {
				continue // edge not reachable
			}
			conds = append(conds, c)
			ts = append(ts, f.termOf(f.val(e)))
		}
		if len(ts) == 0 {
			unsup("phi without reachable edges")
		}
		f.vals[t] = Val{T: vc.mergeTerms(f.label+t.Name(), vc.sortOf(t.Type()), conds, ts), Typ: t.Type()}
	case *ssa.FieldAddr:
		base := f.toLoc(f.val(t.X))
		sty, _, ok := structOf(base.Typ)
		if !ok {
			unsup("FieldAddr on non-struct %s", base.Typ)
		}
		f.vals[t] = Val{Loc: &Loc{Kind: LocField, Base: base, Field: t.Field, Typ: sty.Field(t.Field).Type()}, Typ: t.Type()}
	case *ssa.Field:
		x := f.val(t.X)
		sty, name, _ := structOf(x.Typ)
		vc.structSort(name, sty)
		f.setVal(t, fmt.Sprintf("(%s %s)", fieldSel(name, sty.Field(t.Field).Name(), t.Field), x.T))
	case *ssa.IndexAddr:
		x := f.val(t.X)
		idx := f.val(t.Index).T
		switch xt := types.Unalias(x.Typ).Underlying().(type) {
		case *types.Slice:
			f.safe(pc, "index", t.Pos(), fmt.Sprintf("(and (<= 0 %s) (< %s (len %s)))", idx, idx, x.T), "slice index in range")
			f.vals[t] = Val{Loc: &Loc{Kind: LocElem, Arr: fmt.Sprintf("(arr %s)", x.T), Idx: vc.define("ix", "Int", fmt.Sprintf("(+ (off %s) %s)", x.T, idx)), Typ: xt.Elem()}, Typ: t.Type()}
		case *types.Pointer:
			at, ok := xt.Elem().Underlying().(*types.Array)
			if !ok {
				unsup("IndexAddr on %s", x.Typ)
			}
			l := f.toLoc(x)
			if l.Kind != LocArray {
				unsup("IndexAddr on array that is not a fresh heap array (%s)", shortFn(f.fn))
			}
			f.safe(pc, "index", t.Pos(), fmt.Sprintf("(and (<= 0 %s) (< %s %d))", idx, idx, at.Len()), "array index in range")
			f.vals[t] = Val{Loc: &Loc{Kind: LocElem, Arr: l.Ref, Idx: idx, Typ: at.Elem()}, Typ: t.Type()}
		default:
			unsup("IndexAddr on %s", x.Typ)
		}
	case *ssa.Index:
		x := f.val(t.X)
		idx := f.val(t.Index).T
		switch types.Unalias(x.Typ).Underlying().(type) {
		case *types.Basic: // string
			f.safe(pc, "index", t.Pos(), fmt.Sprintf("(and (<= 0 %s) (< %s (slen %s)))", idx, idx, x.T), "string index in range")
			f.setVal(t, fmt.Sprintf("(sat %s %s)", x.T, idx))
		case *types.Array:
			at := types.Unalias(x.Typ).Underlying().(*types.Array)
			f.safe(pc, "index", t.Pos(), fmt.Sprintf("(and (<= 0 %s) (< %s %d))", idx, idx, at.Len()), "array index in range")
			f.setVal(t, fmt.Sprintf("(select %s %s)", x.T, idx))
		default:
			unsup("Index on %s", x.Typ)
		}
	case *ssa.Lookup:
		f.lookup(t, pc, st)
	case *ssa.Slice:
		f.sliceOp(t, pc, st)
	case *ssa.MakeSlice:
		ln := f.val(t.Len).T
		cp := f.val(t.Cap).T
		et := t.Type().Underlying().(*types.Slice).Elem()
		f.safe(pc, "make", t.Pos(), fmt.Sprintf("(and (<= 0 %s) (<= %s %s) (<= (* %s %d) 281474976710656))", ln, ln, cp, cp, elemSize(et)), "make: 0 <= len <= cap and cap*elemsize <= 2^48 (the runtime panics otherwise)")
		id := f.newRef(st, "make")
		cn := elemComp(et)
		c := vc.comp(st, cn, vc.elemCompSort(et), et)
		f.noteCompSt(st, cn)
		st.heap[cn] = vc.define("h", vc.compSorts[cn], fmt.Sprintf("(store %s %s ((as const (Array Int %s)) %s))", c, id, vc.sortOf(et), vc.zero(et)))
		f.setVal(t, fmt.Sprintf("(mk_slice %s 0 %s %s)", id, ln, cp))
	case *ssa.MakeMap:
		mt := t.Type().Underlying().(*types.Map)
		id := f.newRef(st, "map")
		f.mapInit(mt, id, st)
		f.vals[t] = Val{T: id, Typ: t.Type()}
	case *ssa.MapUpdate:
		f.mapUpdate(t, pc, st)
	case *ssa.MakeInterface:
		x := f.val(t.X)
		f.vals[t] = Val{T: f.box(x, t.X.Type()), Typ: t.Type()}
	case *ssa.TypeAssert:
		f.typeAssert(t, pc, st)
	case *ssa.ChangeType:
		x := f.val(t.X)
		f.vals[t] = Val{T: f.convertStruct(f.termOf(x), t.X.Type(), t.Type()), Typ: t.Type(), Fn: x.Fn, Loc: nil}
		if x.Loc != nil {
			f.vals[t] = Val{Loc: x.Loc, Typ: t.Type()}
		}
	case *ssa.ChangeInterface:
		x := f.val(t.X)
		f.vals[t] = Val{T: x.T, Typ: t.Type()}
	case *ssa.Convert:
		f.convert(t, pc, st)
	case *ssa.Extract:
		tup := f.val(t.Tuple)
		if t.Index >= len(tup.Tuple) {
			unsup("extract out of range")
		}
		f.vals[t] = tup.Tuple[t.Index]
	case *ssa.MakeClosure:
		fn := t.Fn.(*ssa.Function)
		env := "0"
		if len(t.Bindings) == 1 {
			b := f.val(t.Bindings[0])
			if b.Loc == nil || b.Loc.Kind == LocRef {
				if vc.sortOf(t.Bindings[0].Type()) == "Int" {
					env = f.termOf(b)
				}
			}
		}
		if env == "0" && len(t.Bindings) > 0 {
			env = f.newRef(st, "closure")
			for i, bv := range t.Bindings {
				b := f.val(bv)
				if b.Loc != nil && b.Loc.Kind != LocRef {
					unsup("closure captures a non-heap location in %s", shortFn(f.fn))
				}
				srt := vc.sortOf(bv.Type())
				capf := vc.declareFun(fmt.Sprintf("cap%d %s", i, srt), []string{"Int"}, srt)
				vc.assert(fmt.Sprintf("(= (%s %s) %s)", capf, env, f.termOf(b)))
			}
		}
		ft := fmt.Sprintf("(mk_fn %d %s)", vc.fnID(fn), env)
		vc.fnOfTerm[ft] = fn
		var bvals []Val
		for _, bv := range t.Bindings {
			bvals = append(bvals, f.val(bv))
		}
		vc.closureBinds[ft] = bvals
		f.vals[t] = Val{T: ft, Typ: t.Type(), Fn: fn}
	case *ssa.Call:
		return f.call(t, t.Common(), pc, st)
	case *ssa.Defer:
		cc := t.Common()
		rec := deferRec{ins: t, owner: f}
		for _, a := range cc.Args {
			rec.args = append(rec.args, f.val(a))
		}
		if _, ok := cc.Value.(*ssa.Builtin); !ok && (cc.IsInvoke() || cc.StaticCallee() == nil) {
			rec.fv = f.val(cc.Value)
		}
		if mc, ok := cc.Value.(*ssa.MakeClosure); ok {
			for _, b := range mc.Bindings {
				rec.bindings = append(rec.bindings, f.val(b))
			}
		}
		st.defers = append(st.defers[:len(st.defers):len(st.defers)], rec)
	case *ssa.RunDefers:
		return f.runDefers(pc, st)
	case *ssa.Range:
		if _, isMap := t.X.Type().Underlying().(*types.Map); !isMap {
			unsup("range over a string in %s", shortFn(f.fn))
		}
		// iteration over a Go map is abstracted: the iterator yields arbitrary (key, value) pairs, arbitrarily often
		// (an over-approximation of every iteration order and of the map's content; termination is not provable)
		f.vals[t] = Val{T: "0", Typ: t.Type()}
		vc.notes = append(vc.notes, "iteration over a map in "+shortFn(f.fn)+" is abstracted to arbitrary key/value pairs (order, membership and termination are not modelled)")
	case *ssa.Next:
		if t.IsString {
			unsup("range over a string in %s", shortFn(f.fn))
		}
		tt := t.Type().(*types.Tuple)
		var vs []Val
		vs = append(vs, Val{T: vc.freshConst("mapnext.ok", "Bool"), Typ: tt.At(0).Type()})
		for i := 1; i < 3; i++ {
			et := tt.At(i).Type()
			if b, ok := et.(*types.Basic); ok && b.Kind() == types.Invalid {
				vs = append(vs, Val{T: "0", Typ: types.Typ[types.Int]})
				continue
			}
			c := vc.freshConst("mapnext.kv", vc.sortOf(et))
			vc.assert(vc.typed(c, et, 2))
			vc.assert(vc.refsBelow(c, et, st.alloc, 2))
			vs = append(vs, Val{T: c, Typ: et})
		}
		f.vals[t] = Val{Tuple: vs, Typ: tt}
	case *ssa.Go, *ssa.Send, *ssa.Select, *ssa.MakeChan:
		unsup("concurrency primitive in %s", shortFn(f.fn))
	default:
		unsup("instruction %T in %s", ins, shortFn(f.fn))
	}
	return pc
}

func (f *Frame) safe(pc, kind string, pos token.Pos, goal, desc string) {
	if f.dry {
		return
	}
	if f.root().con != nil && (f.root().con.MayPanic || f.root().con.Rethrows) {
		if f.root().con.OwnBounds && f.parent == nil && (kind == "index" || kind == "slice") {
			// own_bounds: the index and slice operations written in this function itself stay obligations
			f.vc.oblige("safe", fmt.Sprintf("%s#safe:%s@%s", f.vc.fnName, kind, f.site(pos)), pc, goal, f.pos(pos), desc)
			return
		}
		// the panicking execution does not return normally (recover is refused in this mode)
		f.vc.assume(pc, goal)
		return
	}
	f.vc.oblige("safe", fmt.Sprintf("%s#safe:%s@%s", f.vc.fnName, kind, f.site(pos)), pc, goal, f.pos(pos), desc)
}

// must: like safe, but not a panic condition: stays an obligation under may_panic
func (f *Frame) must(pc, kind string, pos token.Pos, goal, desc string) {
	if f.dry {
		return
	}
	f.vc.oblige("safe", fmt.Sprintf("%s#safe:%s@%s", f.vc.fnName, kind, f.site(pos)), pc, goal, f.pos(pos), desc)
}

// site names a program point stably: function + ordinal of the source line among the lines of that
// function that carry instructions (so edits elsewhere in the file do not rename obligations).
func (f *Frame) site(pos token.Pos) string {
	if !pos.IsValid() {
		return shortFn(f.fn)
	}
	line := f.vc.prog.fset.Position(pos).Line
	lines := f.vc.prog.fnLines(f.fn)
	k := sort.SearchInts(lines, line)
	return fmt.Sprintf("%s.%d", shortFn(f.fn), k+1)
}

func (f *Frame) unop(t *ssa.UnOp, pc string, st *State) {
	vc := f.vc
	x := f.val(t.X)
	switch t.Op {
	case token.MUL: // load
		l := f.toLoc(x)
		if l.Kind == LocRef && st.ptrCells != nil {
			if pl, ok := st.ptrCells[l.Ref]; ok {
				f.vals[t] = Val{Loc: pl, Typ: t.Type()}
				return
			}
		}
		if tt, ok := t.Type().(*types.Tuple); ok {
			_ = tt
			unsup("tuple load")
		}
		term := f.load(l, st, pc, t.Pos())
		name := vc.define(f.label+t.Name(), vc.sortOf(t.Type()), term)
		if l.Kind == LocRef && st.fnCells != nil {
			if fn, ok := st.fnCells[l.Ref]; ok {
				vc.fnOfTerm[name] = fn
			}
		}
		if name != term || true {
			if l.Kind != LocLocal {
				vc.assert(vc.typed(name, t.Type(), 2))
				vc.assert(vc.refsBelow(name, t.Type(), st.alloc, 2))
			}
		}
		f.vals[t] = Val{T: name, Typ: t.Type()}
	case token.NOT:
		f.setVal(t, not(x.T))
	case token.SUB:
		if isInteger(t.Type()) {
			lo, hi, _ := intRange(t.Type())
			r := fmt.Sprintf("(- %s)", x.T)
			f.safe(pc, "nowrap", t.Pos(), fmt.Sprintf("(and (<= %s %s) (<= %s %s))", lo, r, r, hi), "negation does not wrap")
			f.setVal(t, r)
		} else {
			f.vals[t] = Val{T: vc.freshConst("fneg", "Float"), Typ: t.Type()}
		}
	case token.XOR:
		f.havocVal(t, "bit complement abstracted")
	default:
		unsup("unary %s", t.Op)
	}
}

func (f *Frame) havocVal(v ssa.Value, why string) {
	vc := f.vc
	n := vc.freshConst(f.label+v.Name(), vc.sortOf(v.Type()))
	vc.assert(vc.typed(n, v.Type(), 2))
	f.vals[v] = Val{T: n, Typ: v.Type()}
	vc.note("abstracted: " + why + " in " + shortFn(f.fn))
}

func (vc *VC) note(s string) {
	for _, n := range vc.notes {
		if n == s {
			return
		}
	}
	vc.notes = append(vc.notes, s)
}

func (f *Frame) binop(t *ssa.BinOp, pc string, st *State) {
	vc := f.vc
	x, y := f.val(t.X), f.val(t.Y)
	xt := types.Unalias(t.X.Type()).Underlying()
	a, b := f.termOf(x), f.termOf(y)
	isStr := false
	if bt, ok := xt.(*types.Basic); ok && bt.Info()&types.IsString != 0 {
		isStr = true
	}
	isFloat := false
	if bt, ok := xt.(*types.Basic); ok && bt.Info()&(types.IsFloat|types.IsComplex) != 0 {
		isFloat = true
	}
	if isFloat {
		f.havocVal(t, "floating-point operation")
		return
	}
	switch t.Op {
	case token.ADD, token.SUB, token.MUL:
		if isStr {
			f.setVal(t, fmt.Sprintf("(scat %s %s)", a, b))
			return
		}
		op := map[token.Token]string{token.ADD: "+", token.SUB: "-", token.MUL: "*"}[t.Op]
		r := fmt.Sprintf("(%s %s %s)", op, a, b)
		if lo, hi, ok := intRange(t.Type()); ok {
			if lo == "0" && hi == "18446744073709551615" && t.Op != token.MUL && f.root().con != nil && f.root().con.Wraps {
				// 'wraps': exact machine semantics of unsigned 64-bit + and - (no obligation)
				f.setVal(t, fmt.Sprintf("(mod %s 18446744073709551616)", r))
				return
			}
			f.safe(pc, "nowrap", t.Pos(), fmt.Sprintf("(and (<= %s %s) (<= %s %s))", lo, r, r, hi), fmt.Sprintf("%s %s %s does not wrap around", t.X.Name(), t.Op, t.Y.Name()))
		}
		f.setVal(t, r)
	case token.QUO, token.REM:
		f.safe(pc, "div", t.Pos(), fmt.Sprintf("(not (= %s 0))", b), "division by zero")
		fn := "go_div"
		if t.Op == token.REM {
			fn = "go_mod"
		}
		f.setVal(t, fmt.Sprintf("(%s %s %s)", fn, a, b))
	case token.EQL, token.NEQ:
		var eq string
		switch u := xt.(type) {
		case *types.Basic:
			if isStr {
				eq = vc.streq(a, b)
			} else {
				eq = fmt.Sprintf("(= %s %s)", a, b)
			}
		case *types.Interface:
			eq = f.ifaceEq(a, b)
		case *types.Slice:
			// only comparison with nil is legal
			other := a
			if a == "nil_slice" {
				other = b
			}
			eq = fmt.Sprintf("(= (arr %s) 0)", other)
		case *types.Signature:
			other := a
			if a == "nil_fn" {
				other = b
			}
			eq = fmt.Sprintf("(= (fn_id %s) 0)", other)
		case *types.Struct:
			eq = f.structEq(a, b, types.Unalias(t.X.Type()))
			_ = u
		default:
			eq = fmt.Sprintf("(= %s %s)", a, b)
		}
		if t.Op == token.NEQ {
			eq = not(eq)
		}
		f.setVal(t, eq)
	case token.LSS, token.LEQ, token.GTR, token.GEQ:
		if isStr {
			f.havocVal(t, "string ordering")
			return
		}
		op := map[token.Token]string{token.LSS: "<", token.LEQ: "<=", token.GTR: ">", token.GEQ: ">="}[t.Op]
		f.setVal(t, fmt.Sprintf("(%s %s %s)", op, a, b))
	case token.AND, token.OR, token.XOR, token.SHL, token.SHR, token.AND_NOT:
		if bt, ok := xt.(*types.Basic); ok && bt.Info()&types.IsBoolean != 0 {
			switch t.Op {
			case token.AND:
				f.setVal(t, and(a, b))
				return
			case token.OR:
				f.setVal(t, or(a, b))
				return
			}
		}
		f.havocVal(t, "bit operation "+t.Op.String())
	default:
		unsup("binary %s", t.Op)
	}
}

// structEq: Go == on structs compares fields (strings by content).
func (f *Frame) structEq(a, b string, t types.Type) string {
	return fmt.Sprintf("(= %s %s)", a, b)
}

func (f *Frame) ifaceEq(a, b string) string {
	if a == "nil_iface" {
		return fmt.Sprintf("(= (iface_tag %s) 0)", b)
	}
	if b == "nil_iface" {
		return fmt.Sprintf("(= (iface_tag %s) 0)", a)
	}
	return fmt.Sprintf("(= %s %s)", a, b)
}

func (f *Frame) convertStruct(term string, from, to types.Type) string {
	vc := f.vc
	fs, fname, ok1 := structOf(from)
	ts, tname, ok2 := structOf(to)
	if !ok1 || !ok2 || fname == tname {
		return term
	}
	vc.structSort(fname, fs)
	vc.structSort(tname, ts)
	var parts []string
	for i := 0; i < fs.NumFields(); i++ {
		parts = append(parts, fmt.Sprintf("(%s %s)", fieldSel(fname, fs.Field(i).Name(), i), term))
	}
	if len(parts) == 0 {
		return q("mk " + tname)
	}
	return "(" + q("mk "+tname) + " " + strings.Join(parts, " ") + ")"
}

func (f *Frame) sliceOp(t *ssa.Slice, pc string, st *State) {
	vc := f.vc
	x := f.val(t.X)
	lo := "0"
	if t.Low != nil {
		lo = f.val(t.Low).T
	}
	switch xt := types.Unalias(x.Typ).Underlying().(type) {
	case *types.Slice:
		hi := fmt.Sprintf("(len %s)", x.T)
		if t.High != nil {
			hi = f.val(t.High).T
		}
		mx := fmt.Sprintf("(cap %s)", x.T)
		if t.Max != nil {
			mx = f.val(t.Max).T
			f.safe(pc, "slice", t.Pos(), fmt.Sprintf("(and (<= 0 %s) (<= %s %s) (<= %s %s) (<= %s (cap %s)))", lo, lo, hi, hi, mx, mx, x.T), "slice bounds in range")
		} else {
			f.safe(pc, "slice", t.Pos(), fmt.Sprintf("(and (<= 0 %s) (<= %s %s) (<= %s (cap %s)))", lo, lo, hi, hi, x.T), "slice bounds in range")
		}
		f.setVal(t, fmt.Sprintf("(mk_slice (arr %s) (+ (off %s) %s) (- %s %s) (- %s %s))", x.T, x.T, lo, hi, lo, mx, lo))
	case *types.Basic: // string
		hi := fmt.Sprintf("(slen %s)", x.T)
		if t.High != nil {
			hi = f.val(t.High).T
		}
		f.safe(pc, "slice", t.Pos(), fmt.Sprintf("(and (<= 0 %s) (<= %s %s) (<= %s (slen %s)))", lo, lo, hi, hi, x.T), "string slice bounds in range")
		r := vc.freshConst("substr", "Str")
		vc.assert(fmt.Sprintf("(= (slen %s) (- %s %s))", r, hi, lo))
		vc.assert(fmt.Sprintf("(forall ((i Int)) (! (=> (and (<= 0 i) (< i (slen %s))) (= (sat %s i) (sat %s (+ %s i)))) :pattern ((sat %s i))))", r, r, x.T, lo, r))
		f.vals[t] = Val{T: r, Typ: t.Type()}
	case *types.Pointer:
		at, ok := xt.Elem().Underlying().(*types.Array)
		if !ok {
			unsup("slice of %s", x.Typ)
		}
		l := f.toLoc(x)
		if l.Kind != LocArray {
			unsup("slice of non-fresh array pointer")
		}
		hi := fmt.Sprint(at.Len())
		if t.High != nil {
			hi = f.val(t.High).T
		}
		f.safe(pc, "slice", t.Pos(), fmt.Sprintf("(and (<= 0 %s) (<= %s %s) (<= %s %d))", lo, lo, hi, hi, at.Len()), "array slice bounds in range")
		f.setVal(t, fmt.Sprintf("(mk_slice %s %s (- %s %s) (- %d %s))", l.Ref, lo, hi, lo, at.Len(), lo))
		if lits, ok := vc.arrayLits[l.Ref]; ok && lo == "0" && hi == fmt.Sprint(at.Len()) {
			v := f.vals[t]
			v.Lit = append([]string{}, lits...)
			f.vals[t] = v
		}
	default:
		unsup("slice of %s", x.Typ)
	}
}

// ---------------------------------------------------------------------------------------------
// interfaces

func (vc *VC) typeTag(t types.Type) int {
	k := typeName(t)
	if id, ok := vc.prog.tagIDs[k]; ok {
		return id
	}
	id := len(vc.prog.tagIDs) + 1
	vc.prog.tagIDs[k] = id
	vc.prog.tagTypes[id] = t
	return id
}

func (vc *VC) boxFns(t types.Type) (box, unbox string) {
	k := typeName(t)
	srt := vc.sortOf(t)
	box = vc.declareFun("box "+k, []string{srt}, "Iface")
	unbox = vc.declareFun("unbox "+k, []string{"Iface"}, srt)
	return
}

func (f *Frame) box(x Val, t types.Type) string {
	vc := f.vc
	if _, isIface := types.Unalias(t).Underlying().(*types.Interface); isIface {
		return x.T
	}
	box, unbox := vc.boxFns(t)
	term := f.termOf(x)
	r := vc.define("iface", "Iface", fmt.Sprintf("(%s %s)", box, term))
	vc.assert(fmt.Sprintf("(and (= (iface_tag %s) %d) (= (%s %s) %s))", r, vc.typeTag(t), unbox, r, term))
	vc.knownTag[r] = vc.typeTag(t)
	return r
}

func (f *Frame) typeAssert(t *ssa.TypeAssert, pc string, st *State) {
	vc := f.vc
	x := f.val(t.X)
	at := t.AssertedType
	var ok, val string
	if _, isIface := types.Unalias(at).Underlying().(*types.Interface); isIface {
		ok = f.implementsTerm(x.T, at)
		val = x.T
	} else {
		_, unbox := vc.boxFns(at)
		ok = fmt.Sprintf("(= (iface_tag %s) %d)", x.T, vc.typeTag(at))
		if kt, known := vc.knownTag[x.T]; known {
			ok = fmt.Sprint(kt == vc.typeTag(at))
		}
		val = fmt.Sprintf("(%s %s)", unbox, x.T)
	}
	if t.CommaOk {
		okn := vc.define(f.label+t.Name()+".ok", "Bool", ok)
		v := vc.define(f.label+t.Name()+".v", vc.sortOf(at), fmt.Sprintf("(ite %s %s %s)", okn, val, vc.zero(at)))
		vc.assert(vc.typed(v, at, 2))
		f.vals[t] = Val{Tuple: []Val{{T: v, Typ: at}, {T: okn, Typ: types.Typ[types.Bool]}}, Typ: t.Type()}
		return
	}
	f.safe(pc, "assert", t.Pos(), ok, "type assertion holds")
	v := vc.define(f.label+t.Name(), vc.sortOf(at), val)
	vc.assert(vc.typed(v, at, 2))
	f.vals[t] = Val{T: v, Typ: at}
}

// implementsTerm: dynamic type of iface term implements interface type `it` (closed world over
// the concrete types that are boxed anywhere in the module).
func (f *Frame) implementsTerm(x string, it types.Type) string {
	vc := f.vc
	iface := types.Unalias(it).Underlying().(*types.Interface)
	if iface.NumMethods() == 0 {
		return fmt.Sprintf("(not (= (iface_tag %s) 0))", x)
	}
	var alts []string
	for _, ct := range vc.prog.boxedTypes() {
		if types.Implements(ct, iface) {
			alts = append(alts, fmt.Sprintf("(= (iface_tag %s) %d)", x, vc.typeTag(ct)))
		}
	}
	return or(alts...)
}

// ---------------------------------------------------------------------------------------------
// maps

func (f *Frame) mapComps(mt *types.Map, st *State) (dom, val, card string) {
	vc := f.vc
	ks, vs := vc.sortOf(mt.Key()), vc.sortOf(mt.Elem())
	dom = vc.comp(st, mapDomComp(mt), fmt.Sprintf("(Array Int (Array %s Bool))", ks))
	val = vc.comp(st, mapValComp(mt), fmt.Sprintf("(Array Int (Array %s %s))", ks, vs))
	card = vc.comp(st, mapCardComp(mt), "(Array Int Int)")
	return
}

func (f *Frame) mapInit(mt *types.Map, id string, st *State) {
	vc := f.vc
	dom, _, card := f.mapComps(mt, st)
	ks := vc.sortOf(mt.Key())
	f.noteCompSt(st, mapDomComp(mt))
	f.noteCompSt(st, mapCardComp(mt))
	st.heap[mapDomComp(mt)] = vc.define("h", vc.compSorts[mapDomComp(mt)], fmt.Sprintf("(store %s %s ((as const (Array %s Bool)) false))", dom, id, ks))
	st.heap[mapCardComp(mt)] = vc.define("h", "(Array Int Int)", fmt.Sprintf("(store %s %s 0)", card, id))
}

func (f *Frame) lookup(t *ssa.Lookup, pc string, st *State) {
	vc := f.vc
	x := f.val(t.X)
	k := f.termOf(f.val(t.Index))
	switch xt := types.Unalias(x.Typ).Underlying().(type) {
	case *types.Map:
		dom, val, _ := f.mapComps(xt, st)
		in := vc.define("in", "Bool", fmt.Sprintf("(and (not (= %s 0)) (select (select %s %s) %s))", x.T, dom, x.T, k))
		v := vc.define(f.label+t.Name(), vc.sortOf(xt.Elem()), fmt.Sprintf("(ite %s (select (select %s %s) %s) %s)", in, val, x.T, k, vc.zero(xt.Elem())))
		vc.assert(vc.typed(v, xt.Elem(), 2))
		vc.assert(vc.refsBelow(v, xt.Elem(), st.alloc, 2))
		if t.CommaOk {
			f.vals[t] = Val{Tuple: []Val{{T: v, Typ: xt.Elem()}, {T: in, Typ: types.Typ[types.Bool]}}, Typ: t.Type()}
		} else {
			f.vals[t] = Val{T: v, Typ: t.Type()}
		}
	case *types.Basic:
		f.safe(pc, "index", t.Pos(), fmt.Sprintf("(and (<= 0 %s) (< %s (slen %s)))", k, k, x.T), "string index in range")
		f.setVal(t, fmt.Sprintf("(sat %s %s)", x.T, k))
	default:
		unsup("lookup on %s", x.Typ)
	}
}

func (f *Frame) mapUpdate(t *ssa.MapUpdate, pc string, st *State) {
	vc := f.vc
	m := f.val(t.Map)
	mt := types.Unalias(m.Typ).Underlying().(*types.Map)
	k := f.termOf(f.val(t.Key))
	v := f.termOf(f.val(t.Value))
	f.safe(pc, "mapwrite", t.Pos(), fmt.Sprintf("(not (= %s 0))", m.T), "assignment to entry in nil map")
	dom, val, card := f.mapComps(mt, st)
	f.noteCompSt(st, mapDomComp(mt))
	f.noteCompSt(st, mapValComp(mt))
	f.noteCompSt(st, mapCardComp(mt))
	st.heap[mapCardComp(mt)] = vc.define("h", "(Array Int Int)", fmt.Sprintf("(store %s %s (ite (select (select %s %s) %s) (select %s %s) (+ (select %s %s) 1)))", card, m.T, dom, m.T, k, card, m.T, card, m.T))
	st.heap[mapDomComp(mt)] = vc.define("h", vc.compSorts[mapDomComp(mt)], fmt.Sprintf("(store %s %s (store (select %s %s) %s true))", dom, m.T, dom, m.T, k))
	st.heap[mapValComp(mt)] = vc.define("h", vc.compSorts[mapValComp(mt)], fmt.Sprintf("(store %s %s (store (select %s %s) %s %s))", val, m.T, val, m.T, k, v))
}

// ---------------------------------------------------------------------------------------------
// conversions

func (f *Frame) convert(t *ssa.Convert, pc string, st *State) {
	vc := f.vc
	x := f.val(t.X)
	from := types.Unalias(t.X.Type()).Underlying()
	to := types.Unalias(t.Type()).Underlying()
	fb, fromBasic := from.(*types.Basic)
	tb, toBasic := to.(*types.Basic)
	switch {
	case fromBasic && toBasic && fb.Info()&types.IsInteger != 0 && tb.Info()&types.IsInteger != 0:
		lo, hi, ok := intRange(t.Type())
		if ok {
			flo, fhi, fok := intRange(t.X.Type())
			if !(fok && rangeWithin(flo, fhi, lo, hi)) {
				f.safe(pc, "conv", t.Pos(), fmt.Sprintf("(and (<= %s %s) (<= %s %s))", lo, x.T, x.T, hi), fmt.Sprintf("integer conversion %s -> %s keeps the value", t.X.Type(), t.Type()))
			}
		}
		f.vals[t] = Val{T: x.T, Typ: t.Type()}
	case fromBasic && toBasic && fb.Info()&types.IsString != 0 && tb.Info()&types.IsString != 0:
		f.vals[t] = Val{T: x.T, Typ: t.Type()}
	case toBasic && tb.Info()&types.IsString != 0:
		if sl, ok := from.(*types.Slice); ok {
			// string(bytes): fresh string with the same content
			if !isByte(sl.Elem()) {
				unsup("string([]%s)", sl.Elem())
			}
			f.vals[t] = Val{T: f.bytesToString(x.T, st), Typ: t.Type()}
			return
		}
		if fromBasic && fb.Info()&types.IsInteger != 0 {
			// string(rune): for values < 128 a one-byte string
			r := vc.freshConst("runestr", "Str")
			vc.assert(fmt.Sprintf("(=> (and (<= 0 %s) (< %s 128)) (and (= (slen %s) 1) (= (sat %s 0) %s)))", x.T, x.T, r, r, x.T))
			vc.assert(fmt.Sprintf("(and (>= (slen %s) 1) (<= (slen %s) 4))", r, r))
			f.vals[t] = Val{T: r, Typ: t.Type()}
			return
		}
		unsup("conversion %s -> string", t.X.Type())
	case fromBasic && fb.Info()&types.IsString != 0:
		if sl, ok := to.(*types.Slice); ok && isByte(sl.Elem()) {
			id := f.newRef(st, "bytes")
			cn := elemComp(sl.Elem())
			c := vc.comp(st, cn, vc.elemCompSort(sl.Elem()), sl.Elem())
			f.noteCompSt(st, cn)
			content := vc.freshConst("content", "(Array Int Int)")
			vc.assert(fmt.Sprintf("(forall ((i Int)) (! (=> (and (<= 0 i) (< i (slen %s))) (= (select %s i) (sat %s i))) :pattern ((select %s i))))", x.T, content, x.T, content))
			st.heap[cn] = vc.define("h", vc.compSorts[cn], fmt.Sprintf("(store %s %s %s)", c, id, content))
			f.setVal(t, fmt.Sprintf("(mk_slice %s 0 (slen %s) (slen %s))", id, x.T, x.T))
			return
		}
		unsup("conversion string -> %s", t.Type())
	case toBasic && tb.Info()&types.IsFloat != 0, fromBasic && fb.Info()&types.IsFloat != 0:
		f.havocVal(t, "floating-point conversion")
	default:
		// pointer/unsafe conversions etc.
		if _, ok := to.(*types.Pointer); ok {
			f.vals[t] = x
			return
		}
		unsup("conversion %s -> %s", t.X.Type(), t.Type())
	}
}

func isByte(t types.Type) bool {
	b, ok := types.Unalias(t).Underlying().(*types.Basic)
	return ok && b.Kind() == types.Uint8
}

func rangeWithin(flo, fhi, lo, hi string) bool {
	// compare via known table
	rank := map[string]int{"0": 0}
	_ = rank
	val := func(s string) (neg bool, digits string) {
		if strings.HasPrefix(s, "(- ") {
			return true, strings.TrimSuffix(s[3:], ")")
		}
		return false, s
	}
	cmp := func(a, b string) int { // a <=> b
		an, ad := val(a)
		bn, bd := val(b)
		if an != bn {
			if an {
				return -1
			}
			return 1
		}
		c := 0
		if len(ad) != len(bd) {
			if len(ad) < len(bd) {
				c = -1
			} else {
				c = 1
			}
		} else {
			c = strings.Compare(ad, bd)
		}
		if an {
			return -c
		}
		return c
	}
	return cmp(flo, lo) >= 0 && cmp(fhi, hi) <= 0
}

func (f *Frame) bytesToString(sl string, st *State) string {
	vc := f.vc
	et := types.Typ[types.Uint8]
	c := vc.comp(st, elemComp(et), vc.elemCompSort(et), et)
	// a function of the content; strings are shorter than 2^48 bytes (listed assumption)
	r := vc.define("str", "Str", fmt.Sprintf("(bstr (select %s (arr %s)) (off %s) (len %s))", c, sl, sl, sl))
	vc.assert(fmt.Sprintf("(<= (len %s) 281474976710656)", sl))
	vc.assert(fmt.Sprintf("(= (slen %s) (len %s))", r, sl))
	vc.assert(fmt.Sprintf("(forall ((i Int)) (! (=> (and (<= 0 i) (< i (len %s))) (= (sat %s i) (select (select %s (arr %s)) (+ (off %s) i)))) :pattern ((sat %s i))))", sl, r, c, sl, sl, r))
	return r
}

// obFn: obligation-name prefix: the function under verification, plus the inlined callee if different.
func (f *Frame) obFn() string {
	if f.top {
		return f.vc.fnName
	}
	return f.vc.fnName + "/" + shortFn(f.fn)
}

// runDefers executes this frame's pending deferred calls (LIFO) on the normal path.
func (f *Frame) runDefers(pc string, st *State) string {
	for len(st.defers) > 0 && st.defers[len(st.defers)-1].owner == f {
		d := st.defers[len(st.defers)-1]
		st.defers = st.defers[:len(st.defers)-1]
		pc = f.callPre(nil, d.ins.Common(), d.args, d.fv, d.bindings, pc, st)
	}
	return pc
}

// unwindPanics: every panicking exit of this frame first runs the frame's deferred calls; a deferred
// function that calls recover() turns the exit into a normal return through the recover block (named
// results keep their current values).
func (f *Frame) unwindPanics() {
	for rounds := 0; rounds < 4; rounds++ {
		var pending []Exit
		var keep []Exit
		for _, e := range f.exits {
			if e.Panic && len(e.St.defers) > 0 && e.St.defers[len(e.St.defers)-1].owner == f {
				pending = append(pending, e)
			} else {
				keep = append(keep, e)
			}
		}
		if len(pending) == 0 {
			return
		}
		f.exits = keep
		for _, e := range pending {
			st := e.St.clone()
			pv := f.termOf(e.PanicVal)
			if pv == "" {
				pv = f.vc.freshConst("panicval", "Iface")
			}
			u := &unwindCtx{val: pv, active: e.Cond, recovered: "false"}
			f.unwinding = u
			pc := e.Cond
			for len(st.defers) > 0 && st.defers[len(st.defers)-1].owner == f {
				d := st.defers[len(st.defers)-1]
				st.defers = st.defers[:len(st.defers)-1]
				if c := d.ins.Common().StaticCallee(); c != nil {
					if hc := f.vc.prog.contractFor(c); hc != nil && hc.Rethrows {
						// a proved re-throwing handler: the panic goes on (with a value the handler chooses)
						e.PanicVal = Val{}
						continue
					}
				}
				pc = f.callPre(nil, d.ins.Common(), d.args, d.fv, d.bindings, pc, st)
			}
			f.unwinding = nil
			if u.recovered != "false" {
				rec := f.vc.define("recovered", "Bool", u.recovered)
				// normal return: named results as they are now
				var rs []Val
				res := f.fn.Signature.Results()
				for i := 0; i < res.Len(); i++ {
					nm := res.At(i).Name()
					var v Val
					if a := f.cellByName(nm, st); nm != "" && nm != "_" && a != nil {
						l := f.toLoc(f.vals[a])
						v = Val{T: f.load(l, st, pc, e.Pos), Typ: res.At(i).Type()}
					} else {
						v = Val{T: f.vc.zero(res.At(i).Type()), Typ: res.At(i).Type()}
					}
					rs = append(rs, v)
				}
				f.exits = append(f.exits, Exit{Cond: and(pc, rec), St: st.clone(), Results: rs, Pos: e.Pos, RetIdx: -1, Desc: "return after recover()"})
				pc = and(pc, not(rec))
			}
			if pc != "false" {
				f.exits = append(f.exits, Exit{Panic: true, Cond: pc, St: st, PanicVal: e.PanicVal, Pos: e.Pos, Desc: e.Desc})
			}
		}
	}
}

// pureApply: application of a pure callback, an uninterpreted function of the function value and the
// arguments (one SMT function per signature and result index).
func (vc *VC) pureApply(sig *types.Signature, idx int, fv string, args []string) string {
	var sorts []string
	sorts = append(sorts, "Fn")
	for i := 0; i < sig.Params().Len(); i++ {
		sorts = append(sorts, vc.sortOf(sig.Params().At(i).Type()))
	}
	name := fmt.Sprintf("cb%d %s", idx, types.TypeString(sig, qualifier))
	fn := vc.declareFun(name, sorts, vc.sortOf(sig.Results().At(idx).Type()))
	return "(" + fn + " " + strings.Join(append([]string{fv}, args...), " ") + ")"
}

// execSet performs a ghost assignment hint.
func (f *Frame) execSet(h Hint, pc string, st *State, env *Env) {
	vc := f.vc
	sel, ok := h.L.(ESel)
	if !ok || !strings.HasPrefix(sel.F, "$") {
		unsup("set: only ghost fields can be assigned: %s", h.Src)
	}
	xv := env.eval(sel.X)
	pt, ok := types.Unalias(xv.Typ).Underlying().(*types.Pointer)
	if !ok {
		unsup("set: %s is not a pointer", sel.X)
	}
	_, name, _ := structOf(pt.Elem())
	gf := vc.prog.ghostField(pt.Elem(), sel.F)
	if gf == nil {
		unsup("set: no ghostfield %s on %s", sel.F, name)
	}
	srt := env.sortOfTypeString(gf.Sort)
	cn := fieldComp(name, sel.F)
	c := vc.comp(st, cn, "(Array Int "+srt+")")
	var nv string
	switch h.Kind {
	case "set":
		nv = env.eval(h.E).T
	case "setdef":
		// fresh value with a total pointwise definition:  forall x :: p[x] == body   (body must not mention p)
		q, ok := h.E.(EForall)
		if !ok || len(q.Vars) != 1 {
			unsup("setdef needs 'p :: forall x T :: p[x] == body'")
		}
		eq, ok := q.Body.(EBinary)
		if !ok || eq.Op != "==" {
			unsup("setdef body must be an equation p[x] == e")
		}
		lhs, ok := eq.X.(EIndex)
		if !ok || lhs.X.String() != h.Bind || lhs.I.String() != q.Vars[0].Name || strings.Contains(" "+eq.Y.String()+" ", h.Bind+"[") {
			unsup("setdef body must have the form %s[%s] == e with e not mentioning %s", h.Bind, q.Vars[0].Name, h.Bind)
		}
		nv = vc.freshConst("gdef "+sel.F, srt)
		denv := env.with(h.Bind, Val{T: nv, Sort: srt})
		// trigger on the defined array
		qq := q
		qq.Triggers = [][]Expr{{lhs}}
		vc.assert(denv.evalBool(qq))
	}
	f.noteCompSt(st, cn)
	st.heap[cn] = vc.define("h", "(Array Int "+srt+")", fmt.Sprintf("(store %s %s %s)", c, xv.T, nv))
	_ = pc
}

func (f *Frame) root() *Frame {
	r := f
	for r.parent != nil {
		r = r.parent
	}
	return r
}

// frameFormula: objects that existed when the function under verification was entered and that its
// modifies clause does not name still hold their entry value of component comp ("" if not applicable).
func (f *Frame) frameFormula(s *State, comp string) string {
	vc := f.vc
	r := f.root()
	if r.con == nil || r.entry == nil {
		return ""
	}
	srt := vc.compSorts[comp]
	if !strings.HasPrefix(srt, "(Array Int ") {
		return ""
	}
	now, ok := s.heap[comp]
	init := q("H0 " + comp)
	if et, has := r.entry.heap[comp]; has {
		init = et
	}
	if !ok || now == init {
		return ""
	}
	if r.mods == nil {
		env := r.envPost(r.entry, nil)
		r.mods = r.modTargets(r.con, env)
	}
	if _, any := r.mods["*"]; any {
		return ""
	}
	if containsStr(r.mods[comp], "ALL") {
		return ""
	}
	if containsStr(r.mods[comp], "POOL") {
		return fmt.Sprintf("(forall ((r Int)) (! (=> (and (<= 0 r) (< r %s)) (= (select %s r) (select %s r))) :pattern ((select %s r))))", r.entry.alloc, now, init, now)
	}
	var excl []string
	for _, m := range r.mods[comp] {
		if m == "POOLED" {
			excl = append(excl, not(vc.poolArrayAt(r.entry, "r")))
			continue
		}
		excl = append(excl, fmt.Sprintf("(not (= r %s))", m))
	}
	lo := "(<= 0 r)"
	if strings.HasPrefix(comp, "E ") {
		lo = "(< 0 r)" // array id 0 is the array of nil / zero-capacity slices: it has no elements to keep
	}
	guard := and(append([]string{lo, fmt.Sprintf("(< r %s)", r.entry.alloc)}, excl...)...)
	return fmt.Sprintf("(forall ((r Int)) (! (=> %s (= (select %s r) (select %s r))) :pattern ((select %s r))))", guard, now, init, now)
}

var stdSizes = types.SizesFor("gc", "amd64")

func elemSize(t types.Type) int64 {
	defer func() { recover() }()
	n := stdSizes.Sizeof(t)
	if n < 1 {
		n = 1
	}
	return n
}
