import Mathlib

/-- value of a decimal with integer part `I`, fraction digits value `F` over `k` digits -/
def decval (I F k : ℕ) : ℚ := (I : ℚ) + (F : ℚ) / (10 : ℚ) ^ k

/-- the integer-only order used in the SMT prelude -/
def numlt (I1 F1 k1 I2 F2 k2 : ℕ) : Prop :=
  I1 < I2 ∨ (I1 = I2 ∧ F1 * 10 ^ (max k1 k2 - k1) < F2 * 10 ^ (max k1 k2 - k2))

theorem frac_lt_one (F k : ℕ) (h : F < 10 ^ k) : (F : ℚ) / (10 : ℚ) ^ k < 1 := by
  have hp : (0 : ℚ) < (10 : ℚ) ^ k := by positivity
  rw [div_lt_one hp]
  exact_mod_cast h

theorem frac_nonneg (F k : ℕ) : (0 : ℚ) ≤ (F : ℚ) / (10 : ℚ) ^ k := by positivity

theorem frac_scale (F k m : ℕ) (hk : k ≤ m) :
    (F : ℚ) / (10 : ℚ) ^ k = ((F * 10 ^ (m - k) : ℕ) : ℚ) / (10 : ℚ) ^ m := by
  have hp : (10 : ℚ) ^ k ≠ 0 := by positivity
  have hm : (10 : ℚ) ^ m ≠ 0 := by positivity
  rw [div_eq_div_iff hp hm]
  push_cast
  have : (10 : ℚ) ^ m = 10 ^ (m - k) * 10 ^ k := by
    rw [← pow_add]; congr 1; omega
  rw [this]; ring

theorem numlt_adequate (I1 F1 k1 I2 F2 k2 : ℕ) (h1 : F1 < 10 ^ k1) (h2 : F2 < 10 ^ k2) :
    decval I1 F1 k1 < decval I2 F2 k2 ↔ numlt I1 F1 k1 I2 F2 k2 := by
  unfold decval numlt
  have a1 := frac_lt_one F1 k1 h1
  have a2 := frac_lt_one F2 k2 h2
  have b1 := frac_nonneg F1 k1
  have b2 := frac_nonneg F2 k2
  set m := max k1 k2 with hm
  have e1 := frac_scale F1 k1 m (le_max_left _ _)
  have e2 := frac_scale F2 k2 m (le_max_right _ _)
  have hp : (0 : ℚ) < (10 : ℚ) ^ m := by positivity
  constructor
  · intro h
    rcases lt_trichotomy I1 I2 with hlt | heq | hgt
    · exact Or.inl hlt
    · right
      refine ⟨heq, ?_⟩
      subst heq
      have : (F1 : ℚ) / 10 ^ k1 < (F2 : ℚ) / 10 ^ k2 := by linarith
      rw [e1, e2, div_lt_div_iff_of_pos_right hp] at this
      exact_mod_cast this
    · exfalso
      have : (I2 : ℚ) + 1 ≤ I1 := by exact_mod_cast hgt
      linarith
  · rintro (hlt | ⟨heq, hf⟩)
    · have : (I1 : ℚ) + 1 ≤ I2 := by exact_mod_cast hlt
      linarith
    · subst heq
      have : ((F1 * 10 ^ (m - k1) : ℕ) : ℚ) / 10 ^ m < ((F2 * 10 ^ (m - k2) : ℕ) : ℚ) / 10 ^ m := by
        rw [div_lt_div_iff_of_pos_right hp]
        exact_mod_cast hf
      rw [← e1, ← e2] at this
      linarith
