(declare-sort Key 0)
(define-fun wf ((a (Array Int Key)) (m Int) (d (Array Key Bool)) (ps (Array Key Int))) Bool
  (and (>= m 0)
       (forall ((x Key)) (! (=> (select d x) (and (<= 0 (select ps x)) (< (select ps x) m) (= (select a (select ps x)) x))) :pattern ((select d x)) :pattern ((select ps x))))
       (forall ((p Int)) (! (=> (and (<= 0 p) (< p m)) (and (select d (select a p)) (= (select ps (select a p)) p))) :pattern ((select a p))))))
(declare-const A0 (Array Int Key)) (declare-const n0 Int) (declare-const dom0 (Array Key Bool)) (declare-const pos0 (Array Key Int))
(declare-const keep (Array Key Bool))
(define-fun Inv ((j Int) (A (Array Int Key)) (n Int) (dom (Array Key Bool)) (pos (Array Key Int))) Bool
  (and (<= 0 j) (<= j n0) (wf A n dom pos)
       (forall ((k Key)) (! (= (select dom k) (and (select dom0 k) (or (>= (select pos0 k) j) (select keep k)))) :pattern ((select dom k))))
       (forall ((k1 Key) (k2 Key)) (! (=> (and (select dom k1) (select dom k2)) (= (< (select pos k1) (select pos k2)) (< (select pos0 k1) (select pos0 k2)))) :pattern ((select pos k1) (select pos k2))))))
(assert (wf A0 n0 dom0 pos0))
(declare-const j Int) (declare-const A (Array Int Key)) (declare-const n Int) (declare-const dom (Array Key Bool)) (declare-const pos (Array Key Int))
(assert (Inv j A n dom pos)) (assert (< j n0))
(define-fun k () Key (select A0 j))
; delete(k) contract post-state (when !keep[k]); else unchanged
(declare-const A2 (Array Int Key)) (declare-const n2 Int) (declare-const dom2 (Array Key Bool)) (declare-const pos2 (Array Key Int))
(assert (ite (select keep k)
   (and (= A2 A) (= n2 n) (= dom2 dom) (= pos2 pos))
   (and (wf A2 n2 dom2 pos2)
        (= dom2 (store dom k false))
        (forall ((x Key)) (! (= (select pos2 x) (ite (and (select dom k) (> (select pos x) (select pos k))) (- (select pos x) 1) (select pos x))) :pattern ((select pos2 x)))))))
; entry: Inv(0) from wf
(push) (assert (not (Inv 0 A0 n0 dom0 pos0))) (check-sat) (pop)
; preservation
(push) (assert (not (Inv (+ j 1) A2 n2 dom2 pos2))) (check-sat) (pop)
