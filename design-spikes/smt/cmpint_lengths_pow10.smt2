(declare-fun natval ((Array Int Int) Int Int) Int)
(declare-fun pow10 (Int) Int)
(define-fun unfoldN ((d (Array Int Int)) (o Int) (k Int)) Bool (= (natval d o k)
  (ite (<= k 0) 0 (+ (* 10 (natval d o (- k 1))) (- (select d (+ o (- k 1))) 48)))))
(define-fun unfoldP ((k Int)) Bool (= (pow10 k) (ite (<= k 0) 1 (* 10 (pow10 (- k 1))))))
(define-fun isdigits ((d (Array Int Int)) (o Int) (k Int)) Bool
  (forall ((i Int)) (! (=> (and (<= 0 i) (< i k)) (and (<= 48 (select d (+ o i))) (<= (select d (+ o i)) 57))) :pattern ((select d (+ o i))))))
; lemmas as macros (instances)
(define-fun Lpos ((k Int)) Bool (>= (pow10 k) 1))
(define-fun Llt ((x (Array Int Int)) (o Int) (k Int)) Bool (=> (and (>= k 0) (isdigits x o k)) (and (>= (natval x o k) 0) (< (natval x o k) (pow10 k)))))
(define-fun Lge ((x (Array Int Int)) (o Int) (k Int)) Bool (=> (and (>= k 1) (isdigits x o k) (>= (select x o) 49)) (>= (natval x o k) (pow10 (- k 1)))))
(define-fun Lmono ((a Int) (b Int)) Bool (=> (and (<= 0 a) (<= a b)) (<= (pow10 a) (pow10 b))))
(declare-const x (Array Int Int)) (declare-const o Int) (declare-const k Int) (declare-const a Int)
; Lpos step
(push) (assert (>= k 0)) (assert (Lpos k)) (assert (unfoldP (+ k 1))) (assert (not (Lpos (+ k 1)))) (check-sat) (pop)
; Lpos base
(push) (assert (unfoldP 0)) (assert (not (Lpos 0))) (check-sat) (pop)
; Llt step
(push) (assert (>= k 0)) (assert (Llt x o k)) (assert (unfoldN x o (+ k 1))) (assert (unfoldP (+ k 1))) (assert (Lpos k))
 (assert (not (Llt x o (+ k 1)))) (check-sat) (pop)
; Lge step (k>=1 -> k+1), base k=1
(push) (assert (>= k 1)) (assert (Lge x o k)) (assert (unfoldN x o (+ k 1))) (assert (unfoldP k)) (assert (not (Lge x o (+ k 1)))) (check-sat) (pop)
(push) (assert (unfoldN x o 1)) (assert (unfoldN x o 0)) (assert (unfoldP 0)) (assert (not (Lge x o 1))) (check-sat) (pop)
; Lmono step on b
(push) (assert (<= 0 a)) (assert (<= a k)) (assert (Lmono a k)) (assert (unfoldP (+ k 1))) (assert (Lpos k)) (assert (not (Lmono a (+ k 1)))) (check-sat) (pop)
; VC: xLen < yLen, both wf int parts (no leading zero, nonempty y) => natval(x) < natval(y)
(push)
(declare-const y (Array Int Int)) (declare-const oy Int) (declare-const xl Int) (declare-const yl Int)
(assert (and (<= 0 xl) (< xl yl))) (assert (isdigits x o xl)) (assert (isdigits y oy yl)) (assert (>= (select y oy) 49))
(assert (Llt x o xl)) (assert (Lge y oy yl)) (assert (Lmono xl (- yl 1)))
(assert (not (< (natval x o xl) (natval y oy yl))))
(check-sat)
(pop)
