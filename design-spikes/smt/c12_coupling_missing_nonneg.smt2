; ---- lexeme codes
(define-fun Lit () Int 0) (define-fun Obj () Int 2) (define-fun Key () Int 4) (define-fun Val () Int 6)
(define-fun Arr () Int 8) (define-fun Item () Int 10)
(define-fun OBJ () Int 1) (define-fun ARR () Int 2)
; ---- abstract modes (subset)
(define-fun mV () Int 0) (define-fun mK () Int 3) (define-fun mNI () Int 20) (define-fun mA () Int 30) (define-fun mD () Int 99)
; ---- real step ids (subset)
(define-fun fState1 () Int 1) (define-fun fAfterArrayItem () Int 2) (define-fun fAfterObjectValue () Int 3)
(define-fun fFoundArrayItemBegin () Int 4) (define-fun fFoundObjectKeyBegin () Int 5) (define-fun fEndValue () Int 6) (define-fun fEndTop () Int 7)
(define-fun isws ((c Int)) Bool (or (= c 32) (= c 9) (= c 10) (= c 13)))
(define-fun iscont ((t Int)) Bool (or (= t Obj) (= t Arr)))
(define-fun kind ((t Int)) Int (ite (= t Obj) OBJ ARR))

; ---- coupling: grammar + ghost depth, over (st, n)
(define-fun Rbase ((st (Array Int Int)) (n Int) (G (Array Int Int)) (d Int) (gd (Array Int Int))) Bool
 (and (>= n 0)
  (forall ((i Int)) (! (=> (and (<= 0 i) (< i n))
     (and
       (or (= (select st i) Lit) (= (select st i) Obj) (= (select st i) Key) (= (select st i) Val) (= (select st i) Arr) (= (select st i) Item))
       (=> (or (= (select st i) Key) (= (select st i) Val)) (and (>= i 1) (= (select st (- i 1)) Obj)))
       (=> (= (select st i) Item) (and (>= i 1) (= (select st (- i 1)) Arr)))
       (=> (iscont (select st i)) (or (= i 0) (= (select st (- i 1)) Val) (= (select st (- i 1)) Item)))
       (=> (= (select st i) Lit) (and (= i (- n 1)) (or (= i 0) (= (select st (- i 1)) Val) (= (select st (- i 1)) Item))))
       (= (select gd i) (+ (ite (= i 0) 0 (select gd (- i 1))) (ite (iscont (select st i)) 1 0)))
       (=> (iscont (select st i)) (= (select G (- (select gd i) 1)) (kind (select st i))))))
     :pattern ((select st i)) :pattern ((select gd i))))
  (= d (ite (= n 0) 0 (select gd (- n 1))))))

; control coupling for the states that occur here; ne = effective stack height, st the (unchanged) array
(define-fun Ctl ((step Int) (unf Bool) (st (Array Int Int)) (ne Int) (mode Int) (G (Array Int Int)) (d Int)) Bool
 (and
  (=> (= step fState1) (and (= mode mNI) (>= ne 1) (= (select st (- ne 1)) Lit) (not unf)))
  (=> (= step fAfterArrayItem) (and (= mode mA) (>= ne 1) (= (select st (- ne 1)) Arr) (>= d 1) (= (select G (- d 1)) ARR)))
  (=> (= step fAfterObjectValue) (and (= mode mA) (>= ne 1) (= (select st (- ne 1)) Obj) (>= d 1) (= (select G (- d 1)) OBJ)))
  (=> (= step fFoundArrayItemBegin) (and (= mode mV) (>= ne 1) (= (select st (- ne 1)) Arr)))
  (=> (= step fFoundObjectKeyBegin) (and (= mode mK) (>= ne 1) (= (select st (- ne 1)) Obj)))
  (=> (= step fEndValue) (and (= mode mA) (or (= ne 0) (= (select st (- ne 1)) Val) (= (select st (- ne 1)) Item))))
  (=> (= step fEndTop) (and (= mode mA) (= ne 0) (= d 0)))))

; ---- abstract transition from NI on a non-number byte c (end(c)), given abstract top
(define-fun isnumcont ((c Int)) Bool (or (and (<= 48 c) (<= c 57)) (= c 46) (= c 101) (= c 69)))
(define-fun absMode ((top Int) (c Int)) Int   ; top: 0 empty, OBJ, ARR
  (ite (isws c) mA
  (ite (= top 0) mD
  (ite (= top OBJ) (ite (= c 44) mK (ite (= c 125) mA mD))
                   (ite (= c 44) mV (ite (= c 93) mA mD))))))
(define-fun absPop ((top Int) (c Int)) Bool (or (and (= top OBJ) (= c 125)) (and (= top ARR) (= c 93))))

; ---- pre-state
(declare-const st (Array Int Int)) (declare-const n Int) (declare-const G (Array Int Int)) (declare-const d Int) (declare-const gd (Array Int Int))
(declare-const c Int) (declare-const unf Bool)
(assert (and (<= 0 c) (<= c 255) (not (isnumcont c))))
(assert (Rbase st n G d gd))
(assert (Ctl fState1 unf st n mNI G d))
(define-fun top () Int (ite (= d 0) 0 (select G (- d 1))))

; ---- real code, executed symbolically (state1 -> state0 -> stateEndValue -> s.step(s,c))
; pops = number of closing events queued; step2 = new step; panics = real code panics
(define-fun t2 () Int (select st (- n 2)))
(define-fun panics () Bool
  (ite (= n 1) (not (isws c))
  (ite (= t2 Val) (not (or (isws c) (= c 44) (= c 125)))
  (ite (= t2 Item) (not (or (isws c) (= c 44) (= c 93)))
   true))))
(define-fun pops () Int
  (ite (= n 1) 1
  (ite (= t2 Val) (ite (= c 125) 3 2)
  (ite (= t2 Item) (ite (= c 93) 3 2) 1))))
(define-fun step2 () Int
  (ite (= n 1) fEndTop
  (ite (= t2 Val) (ite (= c 44) fFoundObjectKeyBegin (ite (= c 125) fEndValue fAfterObjectValue))
                  (ite (= c 44) fFoundArrayItemBegin (ite (= c 93) fEndValue fAfterArrayItem)))))
(define-fun ne () Int (- n pops))
(define-fun d2 () Int (ite (absPop top c) (- d 1) d))
(define-fun mode2 () Int (absMode top c))

; (1) real panics  <=>  abstract goes dead
(push) (assert (not (= panics (= mode2 mD)))) (check-sat) (pop)
; (2) otherwise coupling re-established on the effective stack
(push)
(assert (not panics))
(assert (not (and (Rbase st ne G d2 gd) (Ctl step2 false st ne mode2 G d2))))
(check-sat)
(pop)
; (3) the 306 "incorrect ending" panic cannot happen: the events pop matching openers
(push)
(assert (not panics))
(assert (not (and (= (select st (- n 1)) Lit)
                  (=> (>= pops 2) (or (= (select st (- n 2)) Val) (= (select st (- n 2)) Item)))
                  (=> (= pops 3) (= (select st (- n 3)) (ite (= c 125) Obj Arr))))))
(check-sat)
(pop)
