(declare-fun natval ((Array Int Int) Int Int) Int)
(declare-fun scaled (Int Int) Int)
(define-fun unfoldN ((d (Array Int Int)) (o Int) (k Int)) Bool (= (natval d o k)
  (ite (<= k 0) 0 (+ (* 10 (natval d o (- k 1))) (- (select d (+ o (- k 1))) 48)))))
(define-fun unfoldS ((v Int) (k Int)) Bool (= (scaled v k) (ite (<= k 0) v (* 10 (scaled v (- k 1))))))
(define-fun isdigits ((d (Array Int Int)) (o Int) (k Int)) Bool
  (forall ((i Int)) (! (=> (and (<= 0 i) (< i k)) (and (<= 48 (select d (+ o i))) (<= (select d (+ o i)) 57))) :pattern ((select d (+ o i))))))
(define-fun L1 ((x (Array Int Int)) (ox Int) (y (Array Int Int)) (oy Int) (k Int)) Bool
   (=> (and (>= k 0) (forall ((j Int)) (=> (and (<= 0 j) (< j k)) (= (select x (+ ox j)) (select y (+ oy j))))))
         (= (natval x ox k) (natval y oy k))))
(define-fun L2 ((x (Array Int Int)) (ox Int) (y (Array Int Int)) (oy Int) (k Int) (m Int)) Bool
  (=> (and (<= 0 k) (<= k m) (isdigits x ox m) (isdigits y oy m) (< (natval x ox k) (natval y oy k)))
         (< (natval x ox m) (natval y oy m))))
; pad lemma: P is X padded with '0' from xl on
(define-fun ispad ((x (Array Int Int)) (ox Int) (xl Int) (p (Array Int Int))) Bool
  (forall ((i Int)) (! (= (select p i) (ite (and (<= 0 i) (< i xl)) (select x (+ ox i)) 48)) :pattern ((select p i)))))
(define-fun Lpad ((x (Array Int Int)) (ox Int) (xl Int) (p (Array Int Int)) (k Int)) Bool
  (=> (and (ispad x ox xl p) (>= xl 0) (>= k 0))
      (= (natval p 0 k) (ite (<= k xl) (natval x ox k) (scaled (natval x ox xl) (- k xl))))))

; ---- (A) prove Lpad step by induction on k
(push)
(declare-const x (Array Int Int)) (declare-const ox Int) (declare-const xl Int) (declare-const p (Array Int Int)) (declare-const k Int)
(assert (>= k 0)) (assert (>= xl 0)) (assert (ispad x ox xl p))
(assert (Lpad x ox xl p k))                ; IH
(assert (unfoldN p 0 (+ k 1))) (assert (unfoldN x ox (+ k 1)))
(assert (unfoldS (natval x ox xl) (- (+ k 1) xl)))
(assert (unfoldS (natval x ox xl) (- k xl)))
(assert (not (Lpad x ox xl p (+ k 1))))
(check-sat)
(pop)
; ---- (B) cmpFra return -1 VC
(push)
(declare-const X (Array Int Int)) (declare-const Y (Array Int Int)) (declare-const ox Int) (declare-const oy Int)
(declare-const xl Int) (declare-const yl Int) (declare-const L Int) (declare-const i Int)
(declare-const PX (Array Int Int)) (declare-const PY (Array Int Int))
(assert (and (>= xl 0) (>= yl 0) (= L (ite (> xl yl) xl yl))))
(assert (isdigits X ox xl)) (assert (isdigits Y oy yl))
(assert (ispad X ox xl PX)) (assert (ispad Y oy yl PY))
(assert (and (<= 0 i) (< i L)))
; loop invariant: padded digits equal below i
(assert (forall ((j Int)) (! (=> (and (<= 0 j) (< j i)) (= (select PX j) (select PY j))) :pattern ((select PX j)))))
; branch: digit1 < digit2
(assert (< (ite (< i xl) (- (select X (+ ox i)) 48) 0) (ite (< i yl) (- (select Y (+ oy i)) 48) 0)))
; hints
(assert (L1 PX 0 PY 0 i)) (assert (unfoldN PX 0 (+ i 1))) (assert (unfoldN PY 0 (+ i 1)))
(assert (L2 PX 0 PY 0 (+ i 1) L))
(assert (Lpad X ox xl PX L)) (assert (Lpad Y oy yl PY L))
(assert (unfoldS (natval X ox xl) 0)) (assert (unfoldS (natval Y oy yl) 0))
; goal: scaled(natval(x), L-xl) < scaled(natval(y), L-yl)
(assert (not (< (scaled (natval X ox xl) (- L xl)) (scaled (natval Y oy yl) (- L yl)))))
(check-sat)
(pop)
