; spec functions
(define-fun-rec natval ((d (Array Int Int)) (o Int) (k Int)) Int
  (ite (<= k 0) 0 (+ (* 10 (natval d o (- k 1))) (- (select d (+ o (- k 1))) 48))))
(define-fun isdigits ((d (Array Int Int)) (o Int) (k Int)) Bool
  (forall ((i Int)) (=> (and (<= 0 i) (< i k)) (and (<= 48 (select d (+ o i))) (<= (select d (+ o i)) 57)))))

; Lemma prefix_eq: (forall j<k. x[j]=y[j]) => natval(x,k)=natval(y,k)   -- induction on k
(push)
(declare-const x (Array Int Int)) (declare-const y (Array Int Int))
(declare-const ox Int) (declare-const oy Int) (declare-const k Int)
(assert (>= k 0))
; IH at k
(assert (=> (forall ((j Int)) (=> (and (<= 0 j) (< j k)) (= (select x (+ ox j)) (select y (+ oy j))))) (= (natval x ox k) (natval y oy k))))
; step: premise at k+1
(assert (forall ((j Int)) (=> (and (<= 0 j) (< j (+ k 1))) (= (select x (+ ox j)) (select y (+ oy j))))))
(assert (not (= (natval x ox (+ k 1)) (natval y oy (+ k 1)))))
(check-sat)
(pop)
