(set-option :smt.mbqi false)
(set-option :smt.auto-config false)
(declare-fun natval ((Array Int Int) Int Int) Int)
; unfolding axioms (as define-fun-rec would give), with trigger
(assert (forall ((d (Array Int Int)) (o Int) (k Int)) (! (= (natval d o k)
  (ite (<= k 0) 0 (+ (* 10 (natval d o (- k 1))) (- (select d (+ o (- k 1))) 48)))) :pattern ((natval d o k)))))
(define-fun isdigits ((d (Array Int Int)) (o Int) (k Int)) Bool
  (forall ((i Int)) (! (=> (and (<= 0 i) (< i k)) (and (<= 48 (select d (+ o i))) (<= (select d (+ o i)) 57))) :pattern ((select d (+ o i))))))
; L1 prefix_eq (proved separately)
(assert (forall ((x (Array Int Int)) (ox Int) (y (Array Int Int)) (oy Int) (k Int))
  (! (=> (and (>= k 0) (forall ((j Int)) (=> (and (<= 0 j) (< j k)) (= (select x (+ ox j)) (select y (+ oy j))))))
         (= (natval x ox k) (natval y oy k)))
     :pattern ((natval x ox k) (natval y oy k)))))
; L2 lt_mono
(assert (forall ((x (Array Int Int)) (ox Int) (y (Array Int Int)) (oy Int) (k Int) (m Int))
  (! (=> (and (<= 0 k) (<= k m) (isdigits x ox m) (isdigits y oy m) (< (natval x ox k) (natval y oy k)))
         (< (natval x ox m) (natval y oy m)))
     :pattern ((natval x ox k) (natval y oy m)))))

; VC: cmpInt return -1 inside loop at iteration i
(declare-const x (Array Int Int)) (declare-const y (Array Int Int))
(declare-const ox Int) (declare-const oy Int) (declare-const L Int) (declare-const i Int)
(assert (isdigits x ox L)) (assert (isdigits y oy L))
(assert (and (<= 0 i) (< i L)))
(assert (forall ((j Int)) (=> (and (<= 0 j) (< j i)) (= (select x (+ ox j)) (select y (+ oy j))))))
(assert (< (select x (+ ox i)) (select y (+ oy i))))
; hint terms
(assert (= (natval x ox i) (natval x ox i)))
(assert (not (< (natval x ox L) (natval y oy L))))
(check-sat)
