; ---- text positions: specification functions for C16 (line / column under the text's newline symbol) ----
(define-fun isnl ((c Int)) Bool (or (= c 10) (= c 13)))
; The text's own newline symbol: the last byte of the first run of '\n' / '\r' bytes, '\n' if there is none.
; nlphase(d,o,k): 0 = no newline byte seen in d[o..o+k), 1 = inside the first run, 2 = first run is over
(declare-fun nlphase ((Array Int Int) Int Int) Int)
(declare-fun nlsym ((Array Int Int) Int Int) Int)
;@unfold
(define-fun unfold_nlphase ((d (Array Int Int)) (o Int) (k Int)) Bool (= (nlphase d o k)
  (ite (<= k 0) 0 (ite (= (nlphase d o (- k 1)) 2) 2 (ite (isnl (select d (+ o (- k 1)))) 1 (ite (= (nlphase d o (- k 1)) 1) 2 0))))))
;@unfold
(define-fun unfold_nlsym ((d (Array Int Int)) (o Int) (k Int)) Bool (= (nlsym d o k)
  (ite (<= k 0) 10 (ite (and (not (= (nlphase d o (- k 1)) 2)) (isnl (select d (+ o (- k 1))))) (select d (+ o (- k 1))) (nlsym d o (- k 1))))))
;@lemma
(define-fun nlsym_isnl ((d (Array Int Int)) (o Int) (k Int)) Bool (and (isnl (nlsym d o k)) (<= 0 (nlphase d o k)) (<= (nlphase d o k) 2)))
;@lemma once the first run is over nothing changes
(define-fun nlsym_stable ((d (Array Int Int)) (o Int) (k Int) (m Int)) Bool
  (=> (and (<= 0 k) (<= k m) (= (nlphase d o k) 2)) (and (= (nlphase d o m) 2) (= (nlsym d o m) (nlsym d o k)))))
; occurrences of byte c in d[o..o+k)
(declare-fun bcount ((Array Int Int) Int Int Int) Int)
;@unfold
(define-fun unfold_bcount ((d (Array Int Int)) (o Int) (k Int) (c Int)) Bool (= (bcount d o k c)
  (ite (<= k 0) 0 (+ (bcount d o (- k 1) c) (ite (= (select d (+ o (- k 1))) c) 1 0)))))
; bytes after the last occurrence of c in d[o..o+k)  (k if there is none)
(declare-fun bsince ((Array Int Int) Int Int Int) Int)
;@unfold
(define-fun unfold_bsince ((d (Array Int Int)) (o Int) (k Int) (c Int)) Bool (= (bsince d o k c)
  (ite (<= k 0) 0 (ite (= (select d (+ o (- k 1))) c) 0 (+ (bsince d o (- k 1) c) 1)))))
;@lemma
(define-fun bcount_bounds ((d (Array Int Int)) (o Int) (k Int) (c Int)) Bool (and (<= 0 (bcount d o k c)) (<= (bcount d o k c) (ite (<= k 0) 0 k)) (<= 0 (bsince d o k c)) (<= (bsince d o k c) (ite (<= k 0) 0 k))))
; ---- JSON string decoding (external: bytes.unquoteBytes is a copy of encoding/json's decoder) ----
; unq_ok / unq_len: success and decoded length of unquoting the quoted JSON string d[o..o+n)  (uninterpreted)
(declare-fun unq_ok ((Array Int Int) Int Int) Bool)
(declare-fun unq_len ((Array Int Int) Int Int) Int)
; the decoded text itself (DEFINED as the decoder's output, see the defines clauses of bytes.unquoteBytes)
(declare-fun unq_str ((Array Int Int) Int Int) Str)
; decimal rendering of a natural number by strconv.FormatUint / Itoa (uninterpreted, assumed canonical)
(declare-fun decimal_of (Int) Str)
; strings.Count(s, sub) for a non-empty sub: number of non-overlapping occurrences (uninterpreted; only equality of two
; counts of the same arguments is ever used)
(declare-fun strcount (Str Str) Int)

; ---- user type names in a list of strings (C05): how many of the first k strings start with '@' ----
(define-fun isat ((s Str)) Bool (and (> (slen s) 0) (= (sat s 0) 64)))
(declare-fun atcount ((Array Int Str) Int Int) Int)
;@unfold
(define-fun unfold_atcount ((d (Array Int Str)) (o Int) (k Int)) Bool (= (atcount d o k)
  (ite (<= k 0) 0 (+ (atcount d o (- k 1)) (ite (isat (select d (+ o (- k 1)))) 1 0)))))
