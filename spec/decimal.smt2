; ---- decimal digit strings: specification functions for C13 / C01 / C04 ----
; natval(d, o, k): the natural number written by the k decimal digit bytes d[o .. o+k)
(declare-fun natval ((Array Int Int) Int Int) Int)
(declare-fun pow10 (Int) Int)
; scaled(v, k) = v * 10^k  (k >= 0)
(declare-fun scaled (Int Int) Int)
;@unfold
(define-fun unfold_natval ((d (Array Int Int)) (o Int) (k Int)) Bool (= (natval d o k) (ite (<= k 0) 0 (+ (* 10 (natval d o (- k 1))) (- (select d (+ o (- k 1))) 48)))))
;@unfold
(define-fun unfold_pow10 ((k Int)) Bool (= (pow10 k) (ite (<= k 0) 1 (* 10 (pow10 (- k 1))))))
;@unfold
(define-fun unfold_scaled ((v Int) (k Int)) Bool (= (scaled v k) (ite (<= k 0) v (* 10 (scaled v (- k 1))))))
; all of d[o .. o+k) are decimal digits. The bound variable is the absolute position, so that the trigger
; (select d i) matches every read of d whatever offset arithmetic produced the index.
(define-fun isdigits ((d (Array Int Int)) (o Int) (k Int)) Bool (forall ((i Int)) (! (=> (and (<= o i) (< i (+ o k))) (and (<= 48 (select d i)) (<= (select d i) 57))) :pattern ((select d i)))))
(define-fun sgn ((x Int)) Int (ite (< x 0) (- 1) (ite (> x 0) 1 0)))
; comparison of two non-negative decimals  xi + xf/10^xk  and  yi + yf/10^yk  (0 <= xf < 10^xk, 0 <= yf < 10^yk)
; by cross-scaling; adequacy w.r.t. the order on Q is proved in /verif/lean/SpecAdequacy.lean
(define-fun deccmp ((xi Int) (xf Int) (xk Int) (yi Int) (yf Int) (yk Int)) Int
  (ite (not (= xi yi)) (sgn (- xi yi))
       (sgn (- (scaled xf (- (ite (> xk yk) xk yk) xk)) (scaled yf (- (ite (> xk yk) xk yk) yk))))))
; sign of the difference of the signed values  (-1)^nx * x  and  (-1)^ny * y
(define-fun numcmp ((nx Bool) (xi Int) (xf Int) (xk Int) (ny Bool) (yi Int) (yf Int) (yk Int)) Int
  (ite (= nx ny) (ite nx (- (deccmp xi xf xk yi yf yk)) (deccmp xi xf xk yi yf yk))
       (ite (and (= xi 0) (= xf 0) (= yi 0) (= yf 0)) 0 (ite nx (- 1) 1))))

; ---- lemmas (statements; proofs by explicit induction in spec/lemmas/decimal_lemmas.smt2) ----
;@lemma equal digit prefixes have equal values
(define-fun natval_prefix ((x (Array Int Int)) (ox Int) (y (Array Int Int)) (oy Int) (k Int)) Bool
   (=> (and (>= k 0) (forall ((j Int)) (=> (and (<= 0 j) (< j k)) (= (select x (+ ox j)) (select y (+ oy j))))))
       (= (natval x ox k) (natval y oy k))))
;@lemma a strict inequality of prefixes is preserved by appending digits
(define-fun natval_lt_mono ((x (Array Int Int)) (ox Int) (y (Array Int Int)) (oy Int) (k Int) (m Int)) Bool
  (=> (and (<= 0 k) (<= k m) (isdigits x ox m) (isdigits y oy m) (< (natval x ox k) (natval y oy k)))
      (< (natval x ox m) (natval y oy m))))
;@lemma
(define-fun pow10_pos ((k Int)) Bool (>= (pow10 k) 1))
;@lemma
(define-fun natval_lt_pow10 ((x (Array Int Int)) (o Int) (k Int)) Bool (=> (and (>= k 0) (isdigits x o k)) (and (>= (natval x o k) 0) (< (natval x o k) (pow10 k)))))
;@lemma
(define-fun natval_ge_pow10 ((x (Array Int Int)) (o Int) (k Int)) Bool (=> (and (>= k 1) (isdigits x o k) (>= (select x o) 49)) (>= (natval x o k) (pow10 (- k 1)))))
;@lemma
(define-fun pow10_mono ((a Int) (b Int)) Bool (=> (and (<= 0 a) (<= a b)) (<= (pow10 a) (pow10 b))))
; p is the digit string x[ox .. ox+xl) padded with '0' to infinity (total definition of p)
;@definitional
(define-fun ispad ((x (Array Int Int)) (ox Int) (xl Int) (p (Array Int Int))) Bool
  (forall ((i Int)) (! (= (select p i) (ite (and (<= 0 i) (< i xl)) (select x (+ ox i)) 48)) :pattern ((select p i)))))
;@lemma value of a zero-padded digit string
(define-fun natval_pad ((x (Array Int Int)) (ox Int) (xl Int) (p (Array Int Int)) (k Int)) Bool
  (=> (and (ispad x ox xl p) (>= xl 0) (>= k 0))
      (= (natval p 0 k) (ite (<= k xl) (natval x ox k) (scaled (natval x ox xl) (- k xl))))))
;@lemma prefixes of a digit string have smaller or equal value
(define-fun natval_prefix_le ((x (Array Int Int)) (o Int) (k Int) (m Int)) Bool
  (=> (and (<= 0 k) (<= k m) (isdigits x o m)) (<= (natval x o k) (natval x o m))))
;@lemma scaling twice is scaling by the sum
(define-fun scaled_add ((v Int) (a Int) (b Int)) Bool (=> (and (>= a 0) (>= b 0)) (= (scaled (scaled v a) b) (scaled v (+ a b)))))
;@lemma scaling keeps zero and sign
(define-fun scaled_sign ((v Int) (k Int)) Bool (=> (>= k 0) (and (= (= (scaled v k) 0) (= v 0)) (=> (>= v 0) (>= (scaled v k) v)))))
;@lemma a leading zero digit does not change the value
(define-fun natval_leading_zero ((x (Array Int Int)) (o Int) (k Int)) Bool
  (=> (and (>= k 1) (= (select x o) 48)) (= (natval x o k) (natval x (+ o 1) (- k 1)))))
; decimal equality  N * 10^-x == M * 10^-s   (x >= 0, s any integer), stated with non-negative scalings only
(define-fun deceq ((N Int) (x Int) (M Int) (s Int)) Bool (ite (>= s 0) (= (scaled N s) (scaled M x)) (= N (scaled M (- x s)))))
;@lemma appended zero digits scale the value
(define-fun natval_append_zeros ((x (Array Int Int)) (o Int) (k Int) (z Int)) Bool
  (=> (and (>= k 0) (>= z 0) (forall ((p Int)) (! (=> (and (<= (+ o k) p) (< p (+ o k z))) (= (select x p) 48)) :pattern ((select x p)))))
      (= (natval x o (+ k z)) (scaled (natval x o k) z))))
;@lemma
(define-fun scaled_shift ((v Int) (k Int)) Bool (=> (>= k 0) (= (scaled (* 10 v) k) (scaled v (+ k 1)))))
;@lemma scaling is injective
(define-fun scaled_inj ((a Int) (b Int) (k Int)) Bool (=> (and (>= k 0) (= (scaled a k) (scaled b k))) (= a b)))
