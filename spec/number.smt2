; ---- NUM: the RFC 8259 number automaton (number = [ minus ] int [ frac ] [ exp ]), byte level ----
; states: S=0 start, M=1 after '-', Z=2 int is "0", I=3 int digits (first non-zero), P=4 after '.',
;         F=5 fraction digits, E=6 after e/E, G=7 after exponent sign, X=8 exponent digits, D=9 dead.
; The exponent states reached from Z directly ("0e5", "-0E-1") are kept apart as EZ=10, GZ=11, XZ=12:
; the language is the same (XZ accepts), the split only lets a known finding name that class.
(define-fun NUM_S () Int 0)
(define-fun NUM_M () Int 1)
(define-fun NUM_Z () Int 2)
(define-fun NUM_I () Int 3)
(define-fun NUM_P () Int 4)
(define-fun NUM_F () Int 5)
(define-fun NUM_E () Int 6)
(define-fun NUM_G () Int 7)
(define-fun NUM_X () Int 8)
(define-fun NUM_D () Int 9)
(define-fun NUM_EZ () Int 10)
(define-fun NUM_GZ () Int 11)
(define-fun NUM_XZ () Int 12)
(define-fun isdig ((c Int)) Bool (and (<= 48 c) (<= c 57)))
(define-fun isexp ((c Int)) Bool (or (= c 101) (= c 69)))
(define-fun issign ((c Int)) Bool (or (= c 43) (= c 45)))
(define-fun num_step ((q Int) (c Int)) Int
  (ite (= q 0) (ite (= c 45) 1 (ite (= c 48) 2 (ite (and (<= 49 c) (<= c 57)) 3 9)))
  (ite (= q 1) (ite (= c 48) 2 (ite (and (<= 49 c) (<= c 57)) 3 9))
  (ite (= q 2) (ite (= c 46) 4 (ite (isexp c) 10 9))
  (ite (= q 3) (ite (isdig c) 3 (ite (= c 46) 4 (ite (isexp c) 6 9)))
  (ite (= q 4) (ite (isdig c) 5 9)
  (ite (= q 5) (ite (isdig c) 5 (ite (isexp c) 6 9))
  (ite (= q 6) (ite (issign c) 7 (ite (isdig c) 8 9))
  (ite (= q 7) (ite (isdig c) 8 9)
  (ite (= q 8) (ite (isdig c) 8 9)
  (ite (= q 10) (ite (issign c) 11 (ite (isdig c) 12 9))
  (ite (= q 11) (ite (isdig c) 12 9)
  (ite (= q 12) (ite (isdig c) 12 9) 9)))))))))))))
(define-fun num_acc ((q Int)) Bool (or (= q 2) (= q 3) (= q 5) (= q 8) (= q 12)))
; numrun(d, o, k): state after reading d[o .. o+k)
(declare-fun numrun ((Array Int Int) Int Int) Int)
;@unfold
(define-fun unfold_numrun ((d (Array Int Int)) (o Int) (k Int)) Bool (= (numrun d o k) (ite (<= k 0) 0 (num_step (numrun d o (- k 1)) (select d (+ o (- k 1)))))))
;@lemma the dead state is absorbing
(define-fun num_dead_absorbing ((d (Array Int Int)) (o Int) (k Int) (m Int)) Bool
  (=> (and (<= 0 k) (<= k m) (= (numrun d o k) 9)) (= (numrun d o m) 9)))
;@lemma once the exponent was entered from "0", the run stays in {EZ, GZ, XZ, dead}
(define-fun num_zexp_closed ((d (Array Int Int)) (o Int) (k Int) (m Int)) Bool
  (=> (and (<= 0 k) (<= k m) (or (= (numrun d o k) 9) (= (numrun d o k) 10) (= (numrun d o k) 11) (= (numrun d o k) 12)))
      (or (= (numrun d o m) 9) (= (numrun d o m) 10) (= (numrun d o m) 11) (= (numrun d o m) 12))))
;@lemma run states are in range
(define-fun numrun_range ((d (Array Int Int)) (o Int) (k Int)) Bool (and (<= 0 (numrun d o k)) (<= (numrun d o k) 12)))
; ---- mantissa digit count: what appendDigits copies (digits before the first byte outside "-.0123456789") ----
(define-fun ismant ((c Int)) Bool (or (isdig c) (= c 45) (= c 46)))
(declare-fun mantstop ((Array Int Int) Int Int) Bool)
(declare-fun mantcount ((Array Int Int) Int Int) Int)
;@unfold
(define-fun unfold_mantstop ((d (Array Int Int)) (o Int) (k Int)) Bool (= (mantstop d o k) (and (> k 0) (or (mantstop d o (- k 1)) (not (ismant (select d (+ o (- k 1)))))))))
;@unfold
(define-fun unfold_mantcount ((d (Array Int Int)) (o Int) (k Int)) Bool (= (mantcount d o k) (ite (<= k 0) 0 (+ (mantcount d o (- k 1)) (ite (and (not (mantstop d o k)) (isdig (select d (+ o (- k 1))))) 1 0)))))
;@lemma
(define-fun mantcount_bounds ((d (Array Int Int)) (o Int) (k Int)) Bool (and (<= 0 (mantcount d o k)) (<= (mantcount d o k) (ite (<= k 0) 0 k))))
;@lemma once stopped, always stopped and the count is frozen
(define-fun mantstop_mono ((d (Array Int Int)) (o Int) (k Int) (m Int)) Bool
  (=> (and (<= 0 k) (<= k m) (mantstop d o k)) (and (mantstop d o m) (= (mantcount d o m) (mantcount d o k)))))
; ---- exponent magnitude of the text read so far (0 unless the run is in the exponent digits) ----
(declare-fun numexp ((Array Int Int) Int Int) Int)
;@unfold
(define-fun unfold_numexp ((d (Array Int Int)) (o Int) (k Int)) Bool (= (numexp d o k)
  (ite (<= k 0) 0 (ite (or (= (numrun d o k) 8) (= (numrun d o k) 12)) (+ (* 10 (numexp d o (- k 1))) (- (select d (+ o (- k 1))) 48)) (ite (or (= (numrun d o k) 9)) (numexp d o (- k 1)) 0)))))
; ---- the value denoted by a number text: sign, mantissa digits M, fraction digit count, signed exponent ----
(declare-fun mantval ((Array Int Int) Int Int) Int)
;@unfold
(define-fun unfold_mantval ((d (Array Int Int)) (o Int) (k Int)) Bool (= (mantval d o k)
  (ite (<= k 0) 0 (ite (and (not (mantstop d o k)) (isdig (select d (+ o (- k 1))))) (+ (* 10 (mantval d o (- k 1))) (- (select d (+ o (- k 1))) 48)) (mantval d o (- k 1))))))
(declare-fun fracd ((Array Int Int) Int Int) Int)
;@unfold
(define-fun unfold_fracd ((d (Array Int Int)) (o Int) (k Int)) Bool (= (fracd d o k)
  (ite (<= k 0) 0 (ite (= (numrun d o k) 5) (+ (fracd d o (- k 1)) 1) (ite (or (= (numrun d o k) 6) (= (numrun d o k) 7) (= (numrun d o k) 8) (= (numrun d o k) 9)) (fracd d o (- k 1)) 0)))))
(declare-fun expneg ((Array Int Int) Int Int) Bool)
;@unfold
(define-fun unfold_expneg ((d (Array Int Int)) (o Int) (k Int)) Bool (= (expneg d o k)
  (and (> k 0) (ite (= (numrun d o k) 7) (= (select d (+ o (- k 1))) 45) (and (or (= (numrun d o k) 8) (= (numrun d o k) 9)) (expneg d o (- k 1)))))))
;@lemma
(define-fun mantval_nonneg ((d (Array Int Int)) (o Int) (k Int)) Bool (and (>= (mantval d o k) 0) (>= (fracd d o k) 0)))
;@lemma once the mantissa is over its value is frozen
(define-fun mantval_stable ((d (Array Int Int)) (o Int) (k Int) (m Int)) Bool
  (=> (and (<= 0 k) (<= k m) (mantstop d o k)) (= (mantval d o m) (mantval d o k))))
; the text's value written as  M * 10^-s  with  s = fraction digits - signed exponent
(define-fun textscale ((d (Array Int Int)) (o Int) (k Int)) Int (- (fracd d o k) (ite (expneg d o k) (- (numexp d o k)) (numexp d o k))))

; ---- the parser's verdict and normal-form fraction length as functions of the text ----
; DEFINED by json.NewNumber's own results (defines clauses of its contract; NewNumber is a deterministic function of the
; content of its argument). Used to state that the two type guessers classify numbers by the same rule.
(declare-fun numparses ((Array Int Int) Int Int) Bool)
(declare-fun normfrac ((Array Int Int) Int Int) Int)
