; ---- regex schema delimiters (C18): "/pattern/" where the closing slash is the first '/' at position >= 1
;      that is not escaped, a backslash escaping the next byte unless it is itself escaped ----
; resc(d,o,k): the escape flag after the bytes at positions 1 .. k-1 of d[o..]   (k >= 1)
(declare-fun resc ((Array Int Int) Int Int) Bool)
;@unfold
(define-fun unfold_resc ((d (Array Int Int)) (o Int) (k Int)) Bool (= (resc d o k)
  (and (> k 1) (= (select d (+ o (- k 1))) 92) (not (resc d o (- k 1))))))
; rclose(d,o,k): an unescaped '/' occurs at some position in [1, k)
(declare-fun rclose ((Array Int Int) Int Int) Bool)
;@unfold
(define-fun unfold_rclose ((d (Array Int Int)) (o Int) (k Int)) Bool (= (rclose d o k)
  (and (> k 1) (or (rclose d o (- k 1)) (and (= (select d (+ o (- k 1))) 47) (not (resc d o (- k 1))))))))
; rfirst(d,o,k): the position of the first such '/' in [1, k), 0 if there is none
(declare-fun rfirst ((Array Int Int) Int Int) Int)
;@unfold
(define-fun unfold_rfirst ((d (Array Int Int)) (o Int) (k Int)) Bool (= (rfirst d o k)
  (ite (<= k 1) 0 (ite (rclose d o (- k 1)) (rfirst d o (- k 1)) (ite (and (= (select d (+ o (- k 1))) 47) (not (resc d o (- k 1)))) (- k 1) 0)))))
;@lemma the first closing slash does not move when more text follows
(define-fun rfirst_stable ((d (Array Int Int)) (o Int) (k Int) (m Int)) Bool
  (=> (and (<= 1 k) (<= k m) (rclose d o k)) (and (rclose d o m) (= (rfirst d o m) (rfirst d o k)))))
; success of regexp.Compile on a pattern (external library: uninterpreted)
(declare-fun validRE (Str) Bool)
