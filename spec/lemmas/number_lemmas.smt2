; Induction proofs for number.smt2 (every check-sat must answer unsat).
(declare-const d (Array Int Int)) (declare-const o Int) (declare-const k Int) (declare-const m Int)
; num_dead_absorbing: base m = k ; step m -> m+1
(push) (assert (not (num_dead_absorbing d o k k))) (check-sat) (pop)
(push) (assert (<= k m)) (assert (<= 0 k)) (assert (num_dead_absorbing d o k m)) (assert (unfold_numrun d o (+ m 1))) (assert (not (num_dead_absorbing d o k (+ m 1)))) (check-sat) (pop)
; num_zexp_closed
(push) (assert (not (num_zexp_closed d o k k))) (check-sat) (pop)
(push) (assert (<= k m)) (assert (<= 0 k)) (assert (num_zexp_closed d o k m)) (assert (unfold_numrun d o (+ m 1))) (assert (not (num_zexp_closed d o k (+ m 1)))) (check-sat) (pop)
; numrun_range: base k <= 0 ; step
(push) (assert (<= k 0)) (assert (unfold_numrun d o k)) (assert (not (numrun_range d o k))) (check-sat) (pop)
(push) (assert (>= k 0)) (assert (numrun_range d o k)) (assert (unfold_numrun d o (+ k 1))) (assert (not (numrun_range d o (+ k 1)))) (check-sat) (pop)
; mantcount_bounds
(push) (assert (<= k 0)) (assert (unfold_mantcount d o k)) (assert (not (mantcount_bounds d o k))) (check-sat) (pop)
(push) (assert (>= k 0)) (assert (mantcount_bounds d o k)) (assert (unfold_mantcount d o (+ k 1))) (assert (not (mantcount_bounds d o (+ k 1)))) (check-sat) (pop)
; mantstop_mono: base m = k ; step
(push) (assert (not (mantstop_mono d o k k))) (check-sat) (pop)
(push) (assert (<= 0 k)) (assert (<= k m)) (assert (mantstop_mono d o k m)) (assert (unfold_mantstop d o (+ m 1))) (assert (unfold_mantcount d o (+ m 1))) (assert (not (mantstop_mono d o k (+ m 1)))) (check-sat) (pop)
; mantval_nonneg
(push) (assert (<= k 0)) (assert (unfold_mantval d o k)) (assert (unfold_fracd d o k)) (assert (not (mantval_nonneg d o k))) (check-sat) (pop)
(push) (assert (>= k 0)) (assert (mantval_nonneg d o k)) (assert (unfold_mantval d o (+ k 1))) (assert (unfold_fracd d o (+ k 1))) (assert (not (mantval_nonneg d o (+ k 1)))) (check-sat) (pop)
; mantval_stable
(push) (assert (not (mantval_stable d o k k))) (check-sat) (pop)
(push) (assert (<= 0 k)) (assert (<= k m)) (assert (mantval_stable d o k m)) (assert (mantstop_mono d o k m)) (assert (unfold_mantstop d o (+ m 1))) (assert (unfold_mantval d o (+ m 1))) (assert (not (mantval_stable d o k (+ m 1)))) (check-sat) (pop)
