(declare-const d (Array Int Int)) (declare-const o Int) (declare-const k Int) (declare-const m Int)
; rfirst_stable: base m = k ; step m -> m+1
(push) (assert (not (rfirst_stable d o k k))) (check-sat) (pop)
(push) (assert (<= 1 k)) (assert (<= k m)) (assert (rfirst_stable d o k m)) (assert (unfold_rclose d o (+ m 1))) (assert (unfold_rfirst d o (+ m 1))) (assert (not (rfirst_stable d o k (+ m 1)))) (check-sat) (pop)
