; Induction proofs of the lemmas of decimal.smt2. Every (check-sat) must answer unsat.
(declare-const x (Array Int Int)) (declare-const ox Int) (declare-const y (Array Int Int)) (declare-const oy Int)
(declare-const k Int) (declare-const m Int) (declare-const a Int)
; natval_prefix: base k = 0
(push) (assert (unfold_natval x ox 0)) (assert (unfold_natval y oy 0)) (assert (not (natval_prefix x ox y oy 0))) (check-sat) (pop)
; natval_prefix: step k -> k+1
(push) (assert (>= k 0)) (assert (natval_prefix x ox y oy k)) (assert (unfold_natval x ox (+ k 1))) (assert (unfold_natval y oy (+ k 1)))
 (assert (not (natval_prefix x ox y oy (+ k 1)))) (check-sat) (pop)
; natval_lt_mono: base m = k
(push) (assert (not (natval_lt_mono x ox y oy k k))) (check-sat) (pop)
; natval_lt_mono: step m -> m+1 (m >= k)
(push) (assert (<= k m)) (assert (natval_lt_mono x ox y oy k m)) (assert (unfold_natval x ox (+ m 1))) (assert (unfold_natval y oy (+ m 1)))
 (assert (not (natval_lt_mono x ox y oy k (+ m 1)))) (check-sat) (pop)
; pow10_pos
(push) (assert (unfold_pow10 0)) (assert (not (pow10_pos 0))) (check-sat) (pop)
(push) (assert (>= k 0)) (assert (pow10_pos k)) (assert (unfold_pow10 (+ k 1))) (assert (not (pow10_pos (+ k 1)))) (check-sat) (pop)
(push) (assert (< k 0)) (assert (unfold_pow10 k)) (assert (not (pow10_pos k))) (check-sat) (pop)
; natval_lt_pow10
(push) (assert (unfold_natval x ox 0)) (assert (unfold_pow10 0)) (assert (not (natval_lt_pow10 x ox 0))) (check-sat) (pop)
(push) (assert (>= k 0)) (assert (natval_lt_pow10 x ox k)) (assert (unfold_natval x ox (+ k 1))) (assert (unfold_pow10 (+ k 1))) (assert (pow10_pos k))
 (assert (not (natval_lt_pow10 x ox (+ k 1)))) (check-sat) (pop)
; natval_ge_pow10: base k = 1, step k -> k+1
(push) (assert (unfold_natval x ox 1)) (assert (unfold_natval x ox 0)) (assert (unfold_pow10 0)) (assert (not (natval_ge_pow10 x ox 1))) (check-sat) (pop)
(push) (assert (>= k 1)) (assert (natval_ge_pow10 x ox k)) (assert (unfold_natval x ox (+ k 1))) (assert (unfold_pow10 k)) (assert (not (natval_ge_pow10 x ox (+ k 1)))) (check-sat) (pop)
; pow10_mono: base b = a, step b -> b+1
(push) (assert (not (pow10_mono a a))) (check-sat) (pop)
(push) (assert (<= 0 a)) (assert (<= a k)) (assert (pow10_mono a k)) (assert (unfold_pow10 (+ k 1))) (assert (pow10_pos k)) (assert (not (pow10_mono a (+ k 1)))) (check-sat) (pop)
; natval_pad: base k = 0, step k -> k+1
(declare-const xl Int) (declare-const p (Array Int Int))
(push) (assert (unfold_natval p 0 0)) (assert (unfold_natval x ox 0)) (assert (unfold_scaled (natval x ox xl) 0)) (assert (not (natval_pad x ox xl p 0))) (check-sat) (pop)
(push) (assert (>= k 0)) (assert (>= xl 0)) (assert (ispad x ox xl p)) (assert (natval_pad x ox xl p k))
 (assert (unfold_natval p 0 (+ k 1))) (assert (unfold_natval x ox (+ k 1)))
 (assert (unfold_scaled (natval x ox xl) (- (+ k 1) xl))) (assert (unfold_scaled (natval x ox xl) (- k xl)))
 (assert (not (natval_pad x ox xl p (+ k 1)))) (check-sat) (pop)
; natval_prefix_le: base m = k, step m -> m+1 (uses natval >= 0 from natval_lt_pow10)
(push) (assert (not (natval_prefix_le x ox k k))) (check-sat) (pop)
(push) (assert (<= 0 k)) (assert (<= k m)) (assert (natval_prefix_le x ox k m)) (assert (unfold_natval x ox (+ m 1))) (assert (natval_lt_pow10 x ox m))
 (assert (not (natval_prefix_le x ox k (+ m 1)))) (check-sat) (pop)
; scaled_add: induction on b
(declare-const v Int) (declare-const b Int)
(push) (assert (unfold_scaled (scaled v a) 0)) (assert (not (scaled_add v a 0))) (check-sat) (pop)
(push) (assert (>= b 0)) (assert (>= a 0)) (assert (scaled_add v a b)) (assert (unfold_scaled (scaled v a) (+ b 1))) (assert (unfold_scaled v (+ a b 1))) (assert (not (scaled_add v a (+ b 1)))) (check-sat) (pop)
; scaled_sign: induction on k
(push) (assert (unfold_scaled v 0)) (assert (not (scaled_sign v 0))) (check-sat) (pop)
(push) (assert (>= k 0)) (assert (scaled_sign v k)) (assert (unfold_scaled v (+ k 1))) (assert (not (scaled_sign v (+ k 1)))) (check-sat) (pop)
; natval_leading_zero: induction on k from 1
(push) (assert (unfold_natval x ox 1)) (assert (unfold_natval x ox 0)) (assert (unfold_natval x (+ ox 1) 0)) (assert (not (natval_leading_zero x ox 1))) (check-sat) (pop)
(push) (assert (>= k 1)) (assert (natval_leading_zero x ox k)) (assert (unfold_natval x ox (+ k 1))) (assert (unfold_natval x (+ ox 1) k)) (assert (not (natval_leading_zero x ox (+ k 1)))) (check-sat) (pop)
; natval_append_zeros: induction on z
(declare-const z Int)
(push) (assert (unfold_scaled (natval x ox k) 0)) (assert (not (natval_append_zeros x ox k 0))) (check-sat) (pop)
(push) (assert (>= z 0)) (assert (>= k 0)) (assert (natval_append_zeros x ox k z)) (assert (unfold_natval x ox (+ k z 1))) (assert (unfold_scaled (natval x ox k) (+ z 1)))
 (assert (not (natval_append_zeros x ox k (+ z 1)))) (check-sat) (pop)
; scaled_shift: induction on k
(push) (assert (unfold_scaled (* 10 v) 0)) (assert (unfold_scaled v 1)) (assert (unfold_scaled v 0)) (assert (not (scaled_shift v 0))) (check-sat) (pop)
(push) (assert (>= k 0)) (assert (scaled_shift v k)) (assert (unfold_scaled (* 10 v) (+ k 1))) (assert (unfold_scaled v (+ k 2))) (assert (not (scaled_shift v (+ k 1)))) (check-sat) (pop)
; scaled_inj: induction on k
(declare-const b2 Int)
(push) (assert (unfold_scaled v 0)) (assert (unfold_scaled b2 0)) (assert (not (scaled_inj v b2 0))) (check-sat) (pop)
(push) (assert (>= k 0)) (assert (scaled_inj v b2 k)) (assert (unfold_scaled v (+ k 1))) (assert (unfold_scaled b2 (+ k 1))) (assert (not (scaled_inj v b2 (+ k 1)))) (check-sat) (pop)
