; Induction proofs for text.smt2 (every check-sat must answer unsat).
(declare-const d (Array Int Int)) (declare-const o Int) (declare-const k Int) (declare-const m Int) (declare-const c Int)
; nlsym_isnl
(push) (assert (<= k 0)) (assert (unfold_nlsym d o k)) (assert (unfold_nlphase d o k)) (assert (not (nlsym_isnl d o k))) (check-sat) (pop)
(push) (assert (>= k 0)) (assert (nlsym_isnl d o k)) (assert (unfold_nlsym d o (+ k 1))) (assert (unfold_nlphase d o (+ k 1))) (assert (not (nlsym_isnl d o (+ k 1)))) (check-sat) (pop)
; nlsym_stable: base m = k; step
(push) (assert (not (nlsym_stable d o k k))) (check-sat) (pop)
(push) (assert (<= 0 k)) (assert (<= k m)) (assert (nlsym_stable d o k m)) (assert (unfold_nlsym d o (+ m 1))) (assert (unfold_nlphase d o (+ m 1))) (assert (not (nlsym_stable d o k (+ m 1)))) (check-sat) (pop)
; bcount_bounds
(push) (assert (<= k 0)) (assert (unfold_bcount d o k c)) (assert (unfold_bsince d o k c)) (assert (not (bcount_bounds d o k c))) (check-sat) (pop)
(push) (assert (>= k 0)) (assert (bcount_bounds d o k c)) (assert (unfold_bcount d o (+ k 1) c)) (assert (unfold_bsince d o (+ k 1) c)) (assert (not (bcount_bounds d o (+ k 1) c))) (check-sat) (pop)
