"""Reference transition table of the JSON document scanner, written from the RFC 8259 grammar as a pushdown
transducer over bytes (one row per scanner state function; events are the lexeme types the state queues).
gen_jsondoc_contracts.py turns each row into exact postconditions (`ensures guard ==> next step, queued events, flag`)
and an exact `panics when` clause of the corresponding state function.

Row format: list of cases (guard, step, events, flag, result) + the panic guard is "none of the case guards".
  guard  : expression over c (the byte read) and, for the value-ending rows, over the event stack
  step   : name of the next state function, or None = s.step unchanged
  events : lexeme types appended to s.finds, in order
  flag   : None = unfinishedLiteral unchanged, True / False = set
  result : value returned (scan code), None = unspecified
"""
LB, LE, OB, OE, KB, KE, VB, VE, AB, AE, IB, IE, ENDTOP = 0, 1, 2, 3, 4, 5, 6, 7, 8, 9, 10, 11, 27
BLANK = "(c == 32 || c == 9 || c == 10 || c == 13)"
DIGIT = "(48 <= c && c <= 57)"
DIGIT19 = "(49 <= c && c <= 57)"
HEX = "((48 <= c && c <= 57) || (97 <= c && c <= 102) || (65 <= c && c <= 70))"

N0 = "len(s.stack.vals)"

def array_end():
    """']' closes the innermost array; the scanner then waits for what follows that value (with an empty event
    stack - impossible in a consistent run - it would wait for the end of the text)"""
    return [("c == 93 && %s >= 1" % N0, "stateEndValue", [AE], None, 0), ("c == 93 && %s == 0" % N0, "stateEndTop", [AE], None, 0)]

def begin_value(prefix_events, blank_stays=True):
    """value = object / array / string / number / true / false / null (RFC 8259 section 3), after optional blanks"""
    rows = []
    if blank_stays:
        rows.append((BLANK, None, [], None, 0))
    rows += [
        ("c == 123", "stateFoundObjectKeyBeginOrEmpty", prefix_events + [OB], None, 1),
        ("c == 91", "stateFoundArrayItemBeginOrEmpty", prefix_events + [AB], None, 2),
        ("c == 34", "stateInString", prefix_events + [LB], True, 3),
        ("c == 45", "stateNeg", prefix_events + [LB], True, 3),
        ("c == 48", "state0", prefix_events + [LB], None, 3),
        ("c == 116", "stateT", prefix_events + [LB], True, 3),
        ("c == 102", "stateF", prefix_events + [LB], True, 3),
        ("c == 110", "stateN", prefix_events + [LB], True, 3),
        (DIGIT19, "state1", prefix_events + [LB], None, 3),
    ]
    return rows

# rows of the states that follow a complete value; "stay" is the state itself
AFTER = {
    "stateAfterObjectKey": [(BLANK, "stateAfterObjectKey", [], None, 0), ("c == 58", "stateFoundObjectValueBegin", [], None, 0)],
    "stateAfterObjectValue": [(BLANK, "stateAfterObjectValue", [], None, 0), ("c == 44", "stateFoundObjectKeyBegin", [], None, 0), ("c == 125", "stateEndValue", [OE], None, 0)],
    "stateAfterArrayItem": [(BLANK, "stateAfterArrayItem", [], None, 0), ("c == 44", "stateFoundArrayItemBegin", [], None, 0)] + array_end(),
    # after the top-level value only blanks may follow (unless the caller asked for the position of trailing text)
    "stateEndTop": [(BLANK, "stateEndTop", [], None, 0), ("!" + BLANK + " && s.allowTrailingNonSpaceCharacters", "stateEndTop", [ENDTOP], None, 0)],
}

N = "len(s.stack.vals)"
T1 = "s.stack.vals[len(s.stack.vals)-1].lexEventType"
T2 = "s.stack.vals[len(s.stack.vals)-2].lexEventType"

def end_value():
    """the byte after a complete value: close the scalar if one is open, close the enclosing key / value / item,
    then continue as the state that follows it"""
    rows = []
    ctxs = [
        ("%s == 0" % N, [], "stateEndTop"),
        ("%s == 1 && %s == 0" % (N, T1), [LE], "stateEndTop"),
        ("%s >= 2 && %s == 0 && %s == 4" % (N, T1, T2), [LE, KE], "stateAfterObjectKey"),
        ("%s >= 2 && %s == 0 && %s == 6" % (N, T1, T2), [LE, VE], "stateAfterObjectValue"),
        ("%s >= 2 && %s == 0 && %s == 10" % (N, T1, T2), [LE, IE], "stateAfterArrayItem"),
        ("%s >= 1 && %s == 4" % (N, T1), [KE], "stateAfterObjectKey"),
        ("%s >= 1 && %s == 6" % (N, T1), [VE], "stateAfterObjectValue"),
        ("%s >= 1 && %s == 10" % (N, T1), [IE], "stateAfterArrayItem"),
    ]
    for cg, pre, after in ctxs:
        for (g, step, evs, flag, res) in AFTER[after]:
            rows.append(("(%s) && (%s)" % (cg, g), step, pre + evs, flag, res))
    return rows

def others(rows):
    return "!(" + " || ".join("(%s)" % r[0] for r in rows) + ")"

def with_own(own, rest):
    """own cases first; every other byte is handled by `rest` (guards of rest are restricted to 'not an own byte')"""
    og = " || ".join("(%s)" % r[0] for r in own)
    return own + [("!(%s) && (%s)" % (og, g), st, ev, fl, rs) for (g, st, ev, fl, rs) in rest]

ROWS = {}
ROWS["stateBeginValue"] = [(g, st, [], fl, rs) for (g, st, ev, fl, rs) in begin_value([])]          # helper: queues nothing itself
ROWS["stateFoundRootValue"] = begin_value([])
ROWS["stateFoundObjectValueBegin"] = begin_value([VB])
ROWS["stateFoundArrayItemBegin"] = begin_value([IB])
ROWS["stateFoundArrayItemBeginOrEmpty"] = array_end() + begin_value([IB])
ROWS["stateBeginArrayItemOrEmpty"] = array_end() + [(g, st, [], fl, rs) for (g, st, ev, fl, rs) in begin_value([])]
ROWS["stateFoundObjectKeyBeginOrEmpty"] = [(BLANK, None, [], None, 0), ("c == 125", "stateEndValue", [OE], None, 0), ("c == 34", "stateInString", [KB], None, 3)]
ROWS["stateBeginKeyOrEmpty"] = [("c == 125", "stateEndValue", [OE], None, 0), ("c == 34", "stateInString", [KB], None, 3)]
ROWS["stateFoundObjectKeyBegin"] = [(BLANK, None, [], None, 0), ("c == 34", "stateInString", [KB], None, 3)]
ROWS["stateBeginString"] = [("c == 34", "stateInString", [], None, 3)]
for k, v in AFTER.items():
    ROWS[k] = v
ROWS["stateEndValue"] = end_value()
# string = quotation-mark *char quotation-mark; char = unescaped (>= 0x20, not " or \) / escape
ROWS["stateInString"] = [("c == 34", "stateEndValue", [], False, 0), ("c == 92", "stateInStringEsc", [], None, 0), ("c >= 32 && c != 34 && c != 92", None, [], None, 0)]
ROWS["stateInStringEsc"] = [("c == 98 || c == 102 || c == 110 || c == 114 || c == 116 || c == 92 || c == 47 || c == 34", "stateInString", [], None, 0), ("c == 117", "stateInStringEscU", [], None, 0)]
ROWS["stateInStringEscU"] = [(HEX, "stateInStringEscU1", [], None, 0)]
ROWS["stateInStringEscU1"] = [(HEX, "stateInStringEscU12", [], None, 0)]
ROWS["stateInStringEscU12"] = [(HEX, "stateInStringEscU123", [], None, 0)]
ROWS["stateInStringEscU123"] = [(HEX, "stateInString", [], None, 0)]
# number = [ minus ] int [ frac ] [ exp ]
ROWS["stateNeg"] = [("c == 48", "state0", [], False, 0), (DIGIT19, "state1", [], False, 0)]
ROWS["state0"] = with_own([("c == 46", "stateDot", [], True, 0), ("c == 101 || c == 69", "stateE", [], True, 0)], end_value())
ROWS["state1"] = with_own([(DIGIT, "state1", [], None, 0), ("c == 46", "stateDot", [], True, 0), ("c == 101 || c == 69", "stateE", [], True, 0)], end_value())
ROWS["stateDot"] = [(DIGIT, "stateDot0", [], False, 0)]
ROWS["stateDot0"] = with_own([(DIGIT, None, [], None, 0), ("c == 101 || c == 69", "stateE", [], True, 0)], end_value())
ROWS["stateE"] = [("c == 43 || c == 45", "stateESign", [], None, 0), (DIGIT, "stateE0", [], False, 0)]
ROWS["stateESign"] = [(DIGIT, "stateE0", [], False, 0)]
ROWS["stateE0"] = with_own([(DIGIT, None, [], None, 0)], end_value())
# true / false / null
for name, ch, nxt, last in [("stateT", 114, "stateTr", False), ("stateTr", 117, "stateTru", False), ("stateTru", 101, "stateEndValue", True),
                            ("stateF", 97, "stateFa", False), ("stateFa", 108, "stateFal", False), ("stateFal", 115, "stateFals", False), ("stateFals", 101, "stateEndValue", True),
                            ("stateN", 117, "stateNu", False), ("stateNu", 108, "stateNul", False), ("stateNul", 108, "stateEndValue", True)]:
    ROWS[name] = [("c == %d" % ch, nxt, [], False if last else None, 0)]

def ensures_lines(name):
    rows = ROWS[name]
    out = []
    for (g, step, evs, flag, res) in rows:
        parts = []
        parts.append('fnis(s.step, "%s")' % step if step else "s.step == old(s.step)")
        k = len(evs)
        parts.append("len(s.finds) == old(len(s.finds)) + %d" % k)
        parts.append("(forall i :: 0 <= i && i < old(len(s.finds)) ==> s.finds[i] == old(s.finds[i]))")
        for j, e in enumerate(evs):
            parts.append("s.finds[old(len(s.finds)) + %d] == %d" % (j, e))
        if flag is True:
            parts.append("s.unfinishedLiteral")
        elif flag is False:
            parts.append("!s.unfinishedLiteral")
        else:
            parts.append("s.unfinishedLiteral == old(s.unfinishedLiteral)")
        if res is not None:
            parts.append("result == %d" % res)
        out.append("//@   ensures (%s) ==> %s" % (g, " && ".join(parts)))
    out.append("//@   panics when " + others(rows))
    return "\n".join(out) + "\n"
