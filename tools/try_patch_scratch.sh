#!/bin/bash
# usage: try_patch_scratch.sh <patch file> <Cxx>...  — like try_patch.sh but on a scratch copy of /repo (outside /repo and
# /verif, removed afterwards), for use while something else needs /repo untouched. The check is the same binary with
# GOVC_REPO pointing at the copy; its evidence goes to out/scratch-evidence.
P="$1"; shift
D=$(mktemp -d /tmp/govc-patch.XXXXXX)
rsync -a --exclude .git /repo/ "$D/" || exit 2
(cd "$D" && patch -s -p1 < "$P") || { echo "patch does not apply"; rm -rf "$D"; exit 2; }
for c in "$@"; do (cd /verif && GOVC_REPO="$D" GOVC_VERIF=/verif bin/govc check $c quick 2>&1 | grep -E "^(VIOLATION|KNOWN|C[0-9]+ |  failed)" | cut -c1-260); done
rm -rf "$D"
