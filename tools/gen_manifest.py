#!/usr/bin/env python3
"""Regenerates /verif/MANIFEST.json from the table below (keeps it schema-valid)."""
import json, os, subprocess
HERE = os.path.dirname(os.path.dirname(os.path.abspath(__file__)))

LEVEL_NOTE = ("Trusted base: go/packages+go/ssa (x/tools v0.29.0) SSA of the working tree; govc's SSA->SMT translation "
              "(DESIGN.md sections I.3, I.4); z3 4.8.12 / z3 5.1.0 / cvc5 1.0; the spec functions and lemma schemas in /verif/spec; "
              "sequential execution, unbounded memory; assumed contracts of externals and every trusted/havocked callee are "
              "listed in the evidence file on every run.")

CLAIMS = {
 "C13": ("Contracts on the real json.Number comparator: Cmp/Equal/GreaterThan/.../LengthOfFractionalPart and their helpers "
         "(cmpInt, cmpFra, cmpAbs, not) are proved, for all well-formed numbers of any length, to return the sign of the exact "
         "difference of the denoted decimals (digit-string value natval, cross-scaled fractions; adequacy w.r.t. Q proved in Lean), "
         "with every index, conversion and arithmetic operation safe. NewNumber/Scan is proved to accept exactly the language of "
         "the RFC 8259 number automaton NUM (coupling invariant between the nine scanner states and the automaton, unbounded length; "
         "two recorded findings: 0eN rejected, exponents above 2^40), to return a number in normal form (digits only, no leading zero, "
         "no trailing fraction zero, zero unsigned) with LengthOfFractionalPart = its fraction length, and never to panic outside the recorded "
         "exponent-magnitude finding; the normalised representation is proved to denote exactly the value written in the text "
         "(mantissa digits x 10^(exponent - fraction digits), all three exponent-alignment cases and both trimming loops, by scaling lemmas), "
         "so Cmp/Equal and the ordering predicates on two parsed texts decide the exact rational order of what the texts denote. Not decided: String().",
         "5 C13", "weakest-precondition VCs over go/ssa + SMT (deductive, loop invariants, lemma hints)"),
 "C19": ("Every method of the three generated ordered maps (RuleASTNodes, ASTNodes, Constraints: Set, Update, Get, GetValue, Has, Len, "
         "Delete, Filter, Find, Each, EachSafe, Map) and of StringSet (Add, Has, Len, Data) is proved against the insertion-ordered "
         "dictionary view (key sequence + finite map + ghost position function witnessing that the sequence is a duplicate-free "
         "enumeration of the keys): representation invariant preserved by every mutator, exact effect on membership, values and "
         "relative order, absent-key Delete is a no-op, frames, no panic, termination. Induction over operation histories is the "
         "modular proof itself, so it holds for all sequences and all key universes. MarshalJSON and NewRuleASTNodes/NewStringSet "
         "(API preconditions) are listed under not_covered.",
         "5 C19", "weakest-precondition VCs over go/ssa + SMT; data-structure invariant with ghost witness field"),
 "C20": ("IsValidType is proved to accept exactly the 17 documented names; IsEqualSoft is proved equal to the documented relation softEq "
         "(written from the documentation, not from the table) for all pairs of defined types except one recorded known finding (IsEqualSoft(null, array) is true: a stray table entry that the table-derived test pins), using the real table as built by the package "
         "initialiser (executed symbolically; the table is checked never to be written elsewhere), with lemmas: softEq symmetric, reflexive on "
         "defined types, undefined relates nothing, IsEqualSoft symmetric (outside that pair); the token-type tables of schema types and JSON types are proved to "
         "agree (lemma over the two contracts), NewJsonType inverts Type.String on the seven type names, IsScalar/IsOneOf exact; GuessSchemaType "
         "tries its predicates in a fixed order (no map iteration), classifies strings, booleans, null, { and [ exactly, never panics, and "
         "'integer' implies a grammatical number. Not decided: agreement of the integer/float split with the scanner's classifier (needs the "
         "value-preservation half of C13).",
         "5 C20", "weakest-precondition VCs over go/ssa + SMT; finite tables imported from the package initialiser; lemmas over contracts"),
 "C18": ("doCompile/Compile/Check are proved to accept a regex schema exactly when its text starts with '/', contains a later '/' that is not "
         "escaped (escape parity tracked by a recursive spec function, any length) and the text between them compiles (regexp.Compile is external: "
         "uninterpreted validRE); Pattern(), Len() and GetAST().Value are proved to carry exactly that slice (pattern, len+2, \"/\"+pattern+\"/\"); "
         "every rejection is a kit.JSchemaError with an index inside the text (index 0 for empty text); no panic on any input including empty "
         "and one-byte texts; the first use goes through a sequential model of sync.Once. Not decided: Example() matches the pattern (reggen and "
         "regexp are external), the OpenAPI pattern text, use as a user type.",
         "5 C18", "weakest-precondition VCs over go/ssa + SMT; escape-parity spec function with loop invariant"),
 "C16": ("Bytes.LineAndColumn and NewLineSymbol are proved to return the 1-based line and column of a byte under the text's own newline symbol "
         "(recursive spec functions: last byte of the first newline run; count of newline symbols before the index; bytes since the last one), "
         "JSchemaError.SetIndex to store exactly that, lineBeginning/lineEnd to delimit the line so that the quoted source slice is always in "
         "range, and SourceSubString/pointerToTheErrorCharacter/String never to panic under the stated API precondition (caret position not "
         "inside leading blanks of a continuing line); the error-format table is evaluated to contain no %w/%v/%p verbs (no dumps of "
         "internal structures); regex and number entry points are proved to produce positioned errors inside the text or plain coded "
         "errors; every format string of a fmt call in the module is a program constant (static obligation per call site), so text quoted from "
         "the input is never interpreted as a format; for the JSight schema scanner every panic raised by a state function, a closure or Next is "
         "proved to be an error value, and if it is a positioned diagnostic its index lies inside the text (thin contract over all 62 state "
         "functions). Not decided: which byte a scanner error points at, positions produced by the loader/compiler/checker (taken from lexemes), "
         "readability of messages. errs.f is proved to answer with the runtime-failure code exactly when the code has no format or the number of arguments differs from the number of placeholders (never because of the content of an argument), and every call <constant code>.F(args...) in the module is const-evaluated to pass as many arguments as the format has placeholders (static obligation per site; five sites with a variable code are assumptions). The list of type names of an `or` (constraint.TypesList) is proved never to hold an empty name (an empty one is refused with diagnostic 701) and the two readers of type names index in range, so `@a |` and `type: \"\"` are answered with designed diagnostics.",
         "5 C16", "weakest-precondition VCs over go/ssa + SMT; constant evaluation of the format table"),
 "C04": ("Numeric rule values are proved never to wrap: Bytes.ParseUint/ParseInt return the exact decimal value or an error (no-wrap "
         "obligations on u*10+d), so NewMinLength/NewMaxLength/NewMinItems/NewMaxItems/NewPrecision hold exactly the written number "
         "(result.value == natval(rule text)) or panic with the documented code. Not decided: the homomorphism between source text and the "
         "AST as a whole (node per element, notes, nested or/enum/allOf lists are built by the lexeme-driven loader state machines), "
         "collectASTRules order.",
         "5 C04", "weakest-precondition VCs over go/ssa + SMT"),
 "C02": ("Run-time panic freedom (index, slice, nil dereference, type assertion, make size, nil-map write, integer wrap and conversion, negative Repeat) and "
         "loop termination are proved for every function under a no_panic contract (C02 is the union of all of them, 180+ functions), for the state methods of the enum "
         "rule scanner and for the JSight schema scanner (all 62 state functions, the two closures installed after an inline annotation, Next up to the first step past the "
         "end of the text, the event queue and stack, New: every read of the text is in range and every function value called is a known state whose precondition holds; "
         "explicit error-valued panics are the scanner's error mechanism and are allowed exits): the entry points without recover - NewNumber, GuessSchemaType, json.Guess, the regex schema (Check/Len/Pattern/GetAST), the JSON document lexeme "
         "iterator (NextLexeme: every panic of the scanner is an error value and is returned) - are panic-free on every input (one recorded finding: exponent magnitude above "
         "2^40), plus the comparator, ParseUint/ParseInt, text positions, error rendering, the string decoder, the ordered maps, the constraint constructors and validators' "
         "arithmetic, the pooled-buffer marshalers. Not decided: Scanner.Length() of the schema scanner (its bound needs the push-down discipline of the event stack), the loader, "
         "compiler, checker and OpenAPI conversion (not under contract), explicit error-valued panics inside the two scanners, memory exhaustion. Termination of recursion is proved for the key-shortcut type resolution "
         "(checker.resolveRootType: measure = registered types minus names on the chain; a type that lists itself used to overflow the stack) and for the checker list construction (appendTypeValidators/buildList with getType: measure = registered types minus expanded names) and collectAllowedJsonTypes - the other recursion guards of the checker and loader are not under contract, and stack depth as such is not modelled. "
         "Length() of the enum rule scanner is proved to stay within the text and to read in range (it panicked on a rule ending inside an annotation).",
         "5 C02", "weakest-precondition VCs over go/ssa + SMT (safety obligations on every operation, decreases clauses)"),
 "C12": ("Partial. For the JSON document scanner every one of the 39 state functions is proved to implement exactly its row of a reference pushdown transducer "
         "written from the RFC 8259 grammar (tools/jsondoc_rows.py: for every byte class and, after a complete value, every shape of the event stack, the next state, "
         "the lexeme events queued in order, the literal flag, and the exact set of bytes that are refused with a positioned error); processingFoundLexeme is proved to "
         "implement the event-stack discipline exactly (opening events pushed at the byte just read, closing events pop their partner and span to that byte or the one "
         "before it, mismatches refused); found/shiftFound are exact queue operations. In addition: no run-time panic on any byte at any nesting depth, closed-world dispatch "
         "of s.step, every panic is an error value so nextLexeme lets none escape, at most three queued events, the unfinishedLiteral flag that decides acceptance at end of "
         "input agrees with the state (truncated numbers / keywords rejected), Next's reading loop terminates. Not machine-checked: that the transducer of the rows is the "
         "RFC 8259 grammar (it is written to be read against it), the composition of the rows over a whole text (language equality as a theorem about Check()), tree equality "
         "with an independent decoder; of Len() it is proved that it never exceeds the text, that every lexeme handed out ends inside the text, that the result does not end in a blank, "
         "and - with trailing text allowed - that only blanks lie between the result and the first trailing character (not, for a document without trailing text, that it is the end of the value).",
         "5 C12", "weakest-precondition VCs over go/ssa + SMT; function-type contract instantiated per state function"),
 "C10": ("Partial (the aliasing half). The eight functions that take a buffer from a process-wide sync.Pool (exampleBuilder.buildExampleForObjectNode/"
         "ArrayNode and Build/buildObjectKey/buildExampleForMixedValueNode, the four legacy buildExample* functions, Enum/ArrayItems/ObjectProperties/"
         "AllOf.MarshalJSON) are proved, for all node trees and all pool histories, never to return a slice whose backing array belongs to the "
         "buffer-pool subsystem (ghost sets of pool buffers and pool arrays that only grow by fresh objects; Bytes() aliases the buffer's array; "
         "nested calls and encoding/json.Marshal may use the pools arbitrarily), to put back only buffers that came out of a pool, and to leave every "
         "byte array outside the subsystem unchanged; loader.reset is proved to clear every field and the deferred closure of LoadSchemaWithoutCompile "
         "to put the loader back only in the cleared state. Assumed: the sync.Pool / bytes.Buffer model, schema source bytes are not pool arrays, "
         "Ref.MarshalJSON (trusted). The mock AST nodes the OpenAPI converter builds for the items of an `or` rule (openapi/internal: stringRuleToASTNode, objectRuleToASTNode, "
         "stringRuleToASTNodeType) are proved to own a newly created rule map and to write nothing that existed before, so a conversion never edits the AST handed out by GetAST(). Not decided: history independence of whole results (same answer after any sequence of other inputs), "
         "immutability of returned ASTs and of the shared virtual 'any' node.",
         "5 C10", "weakest-precondition VCs over go/ssa + SMT; ghost ownership sets for the buffer pools"),
 "C01": ("Partial (the rule semantics, one rule at a time). Each literal validator is proved to accept exactly the values its documented rule admits: "
         "Min/Max.Validate accept iff json.NewNumber parses the value text and the exact order of the denoted decimals (numOrder, the C13 comparator "
         "contract; the parsed Number denotes exactly the decimal written in the text by the C13 value-preservation proof) satisfies >= / > / <= / < "
         "according to the exclusive flag; Precision.Validate iff the normal-form fraction length is at most the rule value; MinLength/MaxLength iff "
         "the decoded length (quotes removed, escapes decoded by the verified copy of encoding/json's decoder) is within the bound; MinItems/MaxItems on the "
         "child count; Const iff the decoded strings are equal; Enum iff some item has the same classified value (type + decoded text), with items kept "
         "pairwise distinct by Append. The constructors parse rule values exactly (C04). Not decided: that Check() applies these validators to every example "
         "value of the schema and of every registered type (checker/loader pipeline), regex and the built-in string formats (external libraries), "
         "or-alternatives, type references, nullable.",
         "5 C01", "weakest-precondition VCs over go/ssa + SMT; return/panic-exit assertions bound to the callee results"),
 "C17": ("Partial. (1) Item classification and decoding: constraint.NewEnumItem (inline enum) and rules/enum.newEnumItem (enum rule file) are proved to compute "
         "the same function of the item text: blanks trimmed on both sides (TrimSpaces proved exact), JSON kind = literalTypeOf(text) via json.GuessData whose "
         "IsString/IsBoolean/IsNull/IsInteger/IsFloat/IsShortcut/JsonType are proved equal to text-level predicates (integer/float split by the parser's verdict and "
         "normal-form fraction length, the same predicates the schema-side guesser is proved against: lemma guessersAgree), value = decoded string for strings and the "
         "literal text otherwise; Enum.Append keeps items distinct as (kind, value) pairs and panics exactly on a member of its index; Enum.Validate accepts iff an "
         "item equals the classified value. (2) The grammar of rule files: 31 of the 35 state methods of the enum rule scanner are proved to implement exactly their row of a "
         "reference transducer (tools/enum_rows.py: `[` scalar {`,` scalar} `]`, scalars = JSON strings, numbers WITHOUT exponent, true/false/null; blanks, new lines, `//` and "
         "`/* */` annotations between tokens; next state, queued events, flags, saved state on annotation entry/exit, exact set of refused bytes); all 35 plus the queue/stack "
         "operations, Next and processTail are proved free of run-time panics and to keep the representation invariant. Not decided: the value-ending composite of "
         "stateEndValue/state0/state1/stateDot0 as a whole (its parts are), duplicate detection inside the scanner (validateValue is specified only by the invariant), the "
         "events of the length-computing mode (Length() itself is proved in range and blank-trimmed), the composition of rows over a whole text, Values() order, and that `enum: @name` gives the same verdict and example as the inline list (loader).",
         "5 C17", "weakest-precondition VCs over go/ssa + SMT; definitional spec functions (numparses, normfrac, unq_str) tied to the verified parsers"),
 "C09": ("Partial. Proved: GuessSchemaType and json.GuessData classify a text by a function of the text alone (exact text-level specification, fixed test order, no map "
         "iteration); no format in errs.errorFormat uses a verb that prints structures or addresses (const-evaluated table obligation). Closed-list obligation: every "
         "`range` over a Go map in the module is either order-insensitive by the shape of its loop (clear / copy under the range key / collect-then-sort, no early exit; "
         "decided on the SSA) or on a reviewed list whose entries are reported as assumptions; a new or changed map range fails until reviewed. Two order-dependent sites "
         "found this way were genuine defects and are fixed (CheckRootSchema, CompileAllOf). The insertion-order behaviour of the ordered maps is claimed under C19. Not decided: "
         "address-derived names of unnamed types (`#%p`) reaching an error message, independence from the order of AddType/AddRule calls as a whole-history property, the "
         "loader invariant the reviewed entries rely on.",
         "5 C09", "weakest-precondition VCs over go/ssa + SMT for the classifiers; SSA shape analysis + reviewed closed list for map iteration (the list is an assumption, labelled as such)"),
 "C05": ("Partial (the two data structures the property rests on). The collector behind UsedUserTypes() is proved to be an insertion-ordered set: addType adds a name "
         "exactly when it is new, never duplicates, keeps earlier names and their order (representation invariant with a ghost position function, all key universes, "
         "all call sequences); the schema's type table is proved to answer Type(name) with error code 1302 / MustType(name) with a panic exactly when the name "
         "is not registered, addType to refuse exactly duplicates and AddType/addType to leave every other entry unchanged; IsUserTypeName exact. Not decided: that "
         "the tree walk visits every position where a type can be referred to (value shortcut, `@a | @b`, key shortcut, type, or, allOf, additionalProperties) - "
         "dynamic dispatch over the Node family, strings.Split/TrimSpace -, reachability-based 'type not found' in Check(), and that registering unused types "
         "changes nothing.",
         "5 C05", "weakest-precondition VCs over go/ssa + SMT; data-structure invariant with ghost witness"),
 "C07": ("Partial, thin (the refusal clause for additionalProperties). AdditionalProperties.IsEqual is proved to compare exactly the payload (schema type and user type name) "
         "and is given the precondition that both constraints have the same mode; allOfConstraintCompiler.extendWith - verified under a partial-correctness contract, with "
         "everything it calls through the Node interface family treated as arbitrary - is proved to call it only on constraints of the same mode, so an object never inherits "
         "additionalProperties of a different mode silently (the original tree did: fixed); the deferred handlers CatchLexEventError / CatchLexEventErrorWithIncorrectUserType are "
         "proved never to swallow a panic (whenever they recover a value they panic again), which is what lets extendWith's refusals reach Check(); ObjectNode.AddKey/AddChild "
         "record a key with the position of the child it names (an inherited key never points at another property); extendWith shares no constraint object with the inherited type "
         "except the additionalProperties rule (required keys are copied into a list of the object's own). Not decided: that the compiled "
         "object has exactly own ++ inherited properties with origin marks and required flags, duplicate property names, inheritance from non-object / missing types, cycles "
         "(processType bookkeeping), and what Example()/OpenAPI show.",
         "5 C07", "weakest-precondition VCs over go/ssa + SMT; partial-correctness contract with unmodelled callees as havoc; re-throw obligation for deferred handlers"),
 "C06": ("Partial, thin (the bookkeeping of the depth-first walk). The recursion checker's visit is proved to refuse a type exactly when it is already on the current chain and to "
         "record it otherwise; leave to take exactly that type off; checkType, check and checkMixedValueNode to give back the set of types on the chain AND the chain itself "
         "exactly as they found them on every return, error or not (so sibling properties and sibling alternatives of `@a | @b` are judged against the same chain; the original "
         "tree left a refused name on the chain: fixed); a type already on the chain makes checkType fail. Not decided: which links count (optional / nullable / array are skipped, "
         "`@a | @b` fails only if every alternative fails), that the walk follows every mandatory link with the right type table (the observed loss of the type table when descending "
         "into a type, F17 in design-spikes, makes nested cycles go unreported and is not fixed: its repair breaks an existing test), no false alarms. Example(): a type is expanded only "
         "while fewer than two expansions of it are open and the expansion is counted under the name the guard looked at (the per-call half of the termination argument); the object and "
         "array builders never write a closing bracket after a separator nor a separator after an opening bracket or another separator (the original tree did: `{\"id\":1,}`, fixed); "
         "not decided: termination as a whole-recursion theorem, that the pieces between separators are JSON.",
         "5 C06", "weakest-precondition VCs over go/ssa + SMT; partial-correctness contracts with the Node interface family as arbitrary callees"),
}

NOT_APPLICABLE = {
 "C03": "whole-pipeline language inclusion + round trip against an independent decoder: needs a verified reference grammar of the ~70-state schema scanner and the loader protocol; no per-function contract in reach states it (DESIGN.md I.6 and Part II section 6)",
 "C08": "instance validity of the example against the generated OpenAPI schema needs an independent JSON Schema validator as oracle and a relation between two whole-pipeline outputs; no per-function contract states it (DESIGN.md I.6 and Part II section 6); the pooled-buffer half of the marshalers is claimed under C10",
 "C15": "Len() of a schema is Scanner.Length() of the 62-state schema scanner: its bound Len(S) <= len(S) needs the push-down discipline of the event stack at the end of the text (at most two closing events may follow the last byte), which the thin safety invariant now proved for that scanner (C02/C16) does not carry, and the coupled invariant over the states, the pending-event queue and three stacks was out of reach; for the JSON document scanner the bound is proved (under C12); the boundary/idempotence/trailer clauses relate two runs on different texts (2-safety)",
 "C11": "quantifies over goroutine interleavings; the verifier is sequential (mutexes/Once are no-ops in its model), no permission logic for threads (DESIGN.md I.6 and Part II section 6)",
 "C14": "2-safety relation between two complete pipeline runs on different texts; self-composition is feasible for a loop body, not for scanner+loader+compiler (DESIGN.md I.6 and Part II section 6)",
}

def main():
    props = [json.loads(l)["id"] for l in open(os.path.join(HERE, "properties.jsonl"))]
    try:
        commits = subprocess.check_output(["git", "-C", "/repo", "log", "--format=%H %s"], text=True).splitlines()
    except Exception:
        commits = []
    hook_commits = [c.split()[0] for c in commits if " verif:" in c or c.split(" ", 1)[1].startswith("verif")]
    checks = []
    for pid in props:
        if pid in CLAIMS:
            text, ref, tech = CLAIMS[pid]
            checks.append({
                "property_id": pid,
                "quick_cmd": "./bin/check %s quick" % pid,
                "thorough_cmd": "./bin/check %s thorough" % pid,
                "evidence_file": "/verif/evidence/%s.json" % pid,
                "replay_cmd_template": "./bin/check --replay {path}",
                "engine": "govc",
                "level_claimed": {"category": "proof", "text": text, "design_ref": "DESIGN.md Part I sections I.1, I.5 (" + ref.split()[-1] + ")"},
                "level_note": LEVEL_NOTE,
                "technique": tech,
            })
    na = []
    for pid in props:
        if pid in CLAIMS:
            continue
        reason = NOT_APPLICABLE.get(pid, "not yet claimed: contracts for this property have not been brought to a state where every obligation discharges on the unchanged tree (work in progress, see DESIGN.md I.6)")
        na.append({"property_id": pid, "reason": reason})
    m = {
        "version": 1,
        "setup_cmd": "cd /verif/govc && GOFLAGS=-mod=mod GOPROXY=off GOSUMDB=off GOTOOLCHAIN=local go build -o /verif/bin/govc .",
        "hooks": {
            "guard": "verif",
            "enable": "govc loads /repo with build tag 'verif' (go/packages BuildFlags -tags=verif); the tag only adds comment-only verif_contracts.go files that carry the //@ contracts",
            "baseline_off_cmd": "cd /repo && GOFLAGS=-mod=mod go test -vet=off -count=1 ./...",
            "source_commits": hook_commits,
            "add_only": True,
        },
        "engines": [{"name": "govc", "path": "/verif/govc", "serves_properties": sorted(CLAIMS), "kind_free_text": "contract-based deductive verifier for Go written for this task: contracts as //@ comments in /repo (build tag verif), weakest-precondition VC generation over go/ssa, discharge by z3/cvc5"}],
        "checks": checks,
        "not_applicable": na,
        "notes": "Known findings: /verif/known_findings.json. Seeded mutations: /verif/seeded/.",
    }
    json.dump(m, open(os.path.join(HERE, "MANIFEST.json"), "w"), indent=1)
    print("MANIFEST.json: %d checks, %d not applicable" % (len(checks), len(na)))

if __name__ == "__main__":
    main()
