#!/bin/bash
# Re-runs every claimed quick check on the current (clean) /repo so that the committed evidence files describe the unchanged tree.
cd /verif || exit 2
if [ -n "$(git -C /repo status --porcelain --untracked-files=no)" ]; then echo "/repo has uncommitted changes"; exit 2; fi
for c in $(python3 -c "import json;print(' '.join(x['property_id'] for x in json.load(open('MANIFEST.json'))['checks']))" 2>/dev/null); do
  bin/check $c quick | tail -1
done
