#!/bin/bash
# usage: confirm_seeded.sh <seeded dir> <package dir relative to repo root for the demo test ('.' for root)>
# Confirms in a scratch worktree: builds, existing suite unchanged, demo fails with the patch and passes without it.
set -u
export GOFLAGS=-mod=mod GOPROXY=off GOSUMDB=off GOTOOLCHAIN=local
S="$1"; PKG="$2"; WT=$(mktemp -d /tmp/seedwt.XXXXXX); rmdir "$WT"
git -C /repo worktree add -q --detach "$WT" HEAD || exit 2
cd "$WT"
baseline() { go test -vet=off -count=1 ./... 2>&1 | grep -E "^(FAIL|---)" | sed -E "s/[0-9.]+s\)?$//" | sort | tr '\n' ';'; }
B0=$(baseline)
git apply "$S/patch.diff" || { echo "patch does not apply"; git -C /repo worktree remove --force "$WT"; exit 2; }
go build ./... >/dev/null 2>&1; BUILD=$?
B1=$(baseline)
cp "$S"/demo*_test.go "$PKG"/zz_demo_test.go
go test -vet=off -count=1 -run 'TestDemo' "./$PKG" >/tmp/seed_with.log 2>&1; WITH=$?
git apply -R "$S/patch.diff"
go test -vet=off -count=1 -run 'TestDemo' "./$PKG" >/tmp/seed_without.log 2>&1; WITHOUT=$?
cd /; git -C /repo worktree remove --force "$WT"
echo "build_with_patch_exit=$BUILD suite_same=$([ "$B0" = "$B1" ] && echo yes || echo NO) demo_with_patch_exit=$WITH demo_without_patch_exit=$WITHOUT"
echo "suite failures (both): $B1"
