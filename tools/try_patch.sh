#!/bin/bash
# usage: try_patch.sh <patch file> [-R] <Cxx>...   — applies a patch to /repo, runs the quick checks, reverts
P="$1"; shift; REV=""; if [ "$1" = "-R" ]; then REV="-R"; shift; fi
cd /repo || exit 2
if [ -n "$(git status --porcelain --untracked-files=no)" ]; then echo "/repo has uncommitted changes"; exit 2; fi
git apply $REV "$P" || { echo "patch does not apply"; exit 2; }
for c in "$@"; do (cd /verif && bin/check $c quick 2>&1 | grep -E "^(VIOLATION|KNOWN|C[0-9]+ |  failed)" | cut -c1-260); done
git checkout -- . 
git -C /verif checkout -- evidence 2>/dev/null
