#!/bin/sh
# usage: mk_worktree.sh <dir>   — scratch worktree of /repo HEAD without the contract files (for seeded-change agents)
set -e
D="$1"
git -C /repo worktree add -q --detach "$D" HEAD
cd "$D"
git rm -q $(git ls-files | grep 'verif_contracts.*\.go$') 
git -c user.name=scratch -c user.email=scratch@x commit -qm "scratch: strip contract files"
echo "$D ready at $(git rev-parse --short HEAD)"
