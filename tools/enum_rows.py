"""Reference transition table of the enum rule scanner: an enum rule is `[` scalar {`,` scalar} `]` (or `[]`) where a scalar
is a JSON string, a JSON number WITHOUT exponent, true, false or null; blanks and new lines may separate tokens; `// text`
up to the end of the line and `/* text */` are annotations and may stand wherever a blank may (not inside another
annotation); after the closing bracket only blanks, new lines and annotations may follow. One row per scanner state
method; gen_enum_contracts.py turns each row into exact postconditions.

case = (guard, step, events, flag, annotation, result0, may_fail)
  step       : None = unchanged, "name" = that state, "POP" = the state saved on returnToStep (which is popped),
               ("PUSH", "name") = the current state is saved on returnToStep and `name` becomes the state
  flag       : unfinishedLiteral: None = unchanged / True / False;  annotation: likewise
  may_fail   : the case may also end in an error that the row does not decide (duplicate value found by validateValue)
Bytes matched by no case are refused: the method returns a non-nil error."""
LB, LE, AB, AE, IB, IE = 0, 1, 8, 9, 10, 11
IAB, IAE, IATB, IATE, MAB, MAE, MATB, MATE, NL, ENDTOP = 12, 13, 14, 15, 16, 17, 18, 19, 20, 27
NEWLINE = "(c == 10 || c == 13)"
SPACE = "(c == 32 || c == 9)"
DIGIT = "(48 <= c && c <= 57)"
DIGIT19 = "(49 <= c && c <= 57)"
HEX = "((48 <= c && c <= 57) || (97 <= c && c <= 102) || (65 <= c && c <= 70))"
N = "old(len(s.stack.vals))"
T1 = "old(s.stack.vals[len(s.stack.vals)-1].lexEventType)"
T2 = "old(s.stack.vals[len(s.stack.vals)-2].lexEventType)"

def separators(stay):
    """what may stand between tokens: new line (not inside an inline annotation), blank, start of an annotation"""
    return [
        (NEWLINE + " && !s.annotation", stay, [NL], None, None, 0, False),
        (SPACE, stay, [], None, None, 0, False),
        ("c == 47 && !s.annotation", ("PUSH", "stateAnyAnnotationStart", stay), [], None, None, 0, False),
    ]

def scalar_start(prefix):
    return [
        ("c == 34", "stateInString", prefix + [LB], True, None, 1, False),
        ("c == 45", "stateNeg", prefix + [LB], True, None, 1, False),
        ("c == 48", "state0", prefix + [LB], None, None, 1, False),
        ("c == 116", "stateT", prefix + [LB], True, None, 1, False),
        ("c == 102", "stateF", prefix + [LB], True, None, 1, False),
        ("c == 110", "stateN", prefix + [LB], True, None, 1, False),
        (DIGIT19, "state1", prefix + [LB], None, None, 1, False),
    ]

def array_end():
    return [("c == 93 && %s >= 1" % N, "stateEndValue", [AE], None, None, 0, False), ("c == 93 && %s == 0" % N, "stateEndTop", [AE], None, None, 0, False)]

AFTER_ITEM = separators("stateAfterArrayItem") + [("c == 44", "stateFoundArrayItemBegin", [], None, None, 0, False)] + array_end()
# after the closing bracket (parsing mode; the length-computing mode is not specified here)
END_TOP = [(g + " && !s.lengthComputing && !s.hasTrailingCharacters", st, ev, fl, an, rs, mf) for (g, st, ev, fl, an, rs, mf) in separators("stateEndTop")] + \
          [("!(c == 32 || c == 9 || c == 10 || c == 13 || c == 47) && s.annotation && !s.lengthComputing && !s.hasTrailingCharacters", "stateEndTop", [], None, None, 0, False)]

def end_value():
    rows = []
    ctxs = [
        ("%s == 0" % N, [], END_TOP, False),
        ("%s == 1 && %s == 0" % (N, T1), [LE], END_TOP, True),
        ("%s >= 2 && %s == 0 && %s == 10" % (N, T1, T2), [LE, IE], AFTER_ITEM, True),
        ("%s >= 1 && %s == 10" % (N, T1), [IE], AFTER_ITEM, False),
    ]
    for cg, pre, after, mf in ctxs:
        for (g, step, evs, flag, an, res, _) in after:
            rows.append(("(%s) && (%s)" % (cg, g), step, pre + evs, flag, an, res, mf))
    return rows

def with_own(own, rest):
    og = " || ".join("(%s)" % r[0] for r in own)
    return own + [("!(%s) && (%s)" % (og, g), st, ev, fl, an, rs, mf) for (g, st, ev, fl, an, rs, mf) in rest]

def no_events(rows):
    return [(g, st, [], fl, an, rs, mf) for (g, st, ev, fl, an, rs, mf) in rows]

ROWS = {}
ROWS["stateBegin"] = [("(c == 32 || c == 9 || c == 10 || c == 13)", None, [], None, None, 0, False), ("c == 91", "stateFoundArrayItemBeginOrEmpty", [AB], None, None, 0, False)]
ROWS["stateBeginValue"] = separators(None) + no_events(scalar_start([]))
ROWS["stateBeginArrayItemOrEmpty"] = array_end() + separators(None) + no_events(scalar_start([]))
ROWS["stateFoundArrayItemBegin"] = separators(None) + scalar_start([IB])
ROWS["stateFoundArrayItemBeginOrEmpty"] = array_end() + separators(None) + scalar_start([IB])
ROWS["stateAfterArrayItem"] = AFTER_ITEM
ROWS["stateEndTop"] = END_TOP
ROWS["stateEndValue"] = end_value()
ROWS["stateInString"] = [("c == 34", "stateEndValue", [], False, None, 0, False), ("c == 92", "stateInStringEsc", [], None, None, 0, False), ("c >= 32 && c != 34 && c != 92", None, [], None, None, 0, False)]
ROWS["stateInStringEsc"] = [("c == 98 || c == 102 || c == 110 || c == 114 || c == 116 || c == 92 || c == 47 || c == 34", "stateInString", [], None, None, 0, False), ("c == 117", ("PUSHSTATE", "stateInString", "stateInStringEscU"), [], None, None, 0, False)]
ROWS["stateInStringEscU"] = [(HEX, "stateInStringEscU1", [], None, None, 0, False)]
ROWS["stateInStringEscU1"] = [(HEX, "stateInStringEscU12", [], None, None, 0, False)]
ROWS["stateInStringEscU12"] = [(HEX, "stateInStringEscU123", [], None, None, 0, False)]
ROWS["stateInStringEscU123"] = [(HEX, "POP", [], None, None, 0, False)]
# number = [ minus ] int [ frac ]   (an exponent is refused: "not obvious it's a float or an integer")
ROWS["stateNeg"] = [("c == 48", "state0", [], False, None, 0, False), (DIGIT19, "state1", [], False, None, 0, False)]
NOEXP = "c != 101 && c != 69"
ROWS["state0"] = with_own([("c == 46", "stateDot", [], True, None, 0, False)], [("%s && (%s)" % (NOEXP, g), st, ev, fl, an, rs, mf) for (g, st, ev, fl, an, rs, mf) in end_value()])
ROWS["state1"] = with_own([(DIGIT, "state1", [], None, None, 0, False), ("c == 46", "stateDot", [], True, None, 0, False)], [("%s && (%s)" % (NOEXP, g), st, ev, fl, an, rs, mf) for (g, st, ev, fl, an, rs, mf) in end_value()])
ROWS["stateDot"] = [(DIGIT, "stateDot0", [], False, None, 0, False)]
ROWS["stateDot0"] = with_own([(DIGIT, None, [], None, None, 0, False)], [("%s && (%s)" % (NOEXP, g), st, ev, fl, an, rs, mf) for (g, st, ev, fl, an, rs, mf) in end_value()])
for name, ch, nxt, last in [("stateT", 114, "stateTr", False), ("stateTr", 117, "stateTru", False), ("stateTru", 101, "stateEndValue", True),
                            ("stateF", 97, "stateFa", False), ("stateFa", 108, "stateFal", False), ("stateFal", 115, "stateFals", False), ("stateFals", 101, "stateEndValue", True),
                            ("stateN", 117, "stateNu", False), ("stateNu", 108, "stateNul", False), ("stateNul", 108, "stateEndValue", True)]:
    ROWS[name] = [("c == %d" % ch, nxt, [], False if last else None, None, 0, False)]
# annotations
ROWS["stateAnyAnnotationStart"] = [("c == 47", "stateInlineAnnotation", [IAB], None, True, 0, False), ("c == 42", "stateMultiLineAnnotation", [MAB], None, True, 0, False)]
INLINE_TEXT = [(NEWLINE, "POP", [IATE, IAE, NL], None, False, 0, False), ("!" + NEWLINE, "stateInlineAnnotationText", [], None, None, 0, False)]
# `//` then blanks, then the text up to the end of the line; the text may be empty: the new line ends the annotation
ROWS["stateInlineAnnotation"] = [(SPACE, None, [], None, None, 0, False)] + [("!%s && (%s)" % (SPACE, g), st, [IATB] + ev, fl, an, rs, mf) for (g, st, ev, fl, an, rs, mf) in INLINE_TEXT]
ROWS["stateInlineAnnotationText"] = [(g, (st if st == "POP" else None), ev, fl, an, rs, mf) for (g, st, ev, fl, an, rs, mf) in INLINE_TEXT]
ML_TEXT = [("c == 42 && s.index < s.dataSize && s.data.data[s.index] == 47", "stateMultiLineAnnotationEnd", [MATE], None, None, 0, False),
           ("!(c == 42 && s.index < s.dataSize && s.data.data[s.index] == 47)", "stateMultiLineAnnotationText", [], None, None, 0, False)]
ROWS["stateMultiLineAnnotation"] = [(NEWLINE, None, [NL], None, None, 0, False), (SPACE, None, [], None, None, 0, False)] + \
    [("!(c == 32 || c == 9 || c == 10 || c == 13) && (%s)" % g, st, [MATB] + ev, fl, an, rs, mf) for (g, st, ev, fl, an, rs, mf) in ML_TEXT]
ROWS["stateMultiLineAnnotationText"] = [(g, (st if st == "stateMultiLineAnnotationEnd" else None), ev, fl, an, rs, mf) for (g, st, ev, fl, an, rs, mf) in ML_TEXT]
ROWS["stateMultiLineAnnotationEnd"] = [("c == 47", "POP", [MAE], None, False, 0, False)]

# The value-ending composite (the byte after a complete scalar: close the scalar, check it for duplicates, close the item,
# continue as the state after an item) is specified row by row for its parts (stateAfterArrayItem, stateEndTop,
# stateFoundArrayEnd, validateValue) but not as a composite: the four methods that run it (stateEndValue, state0, state1,
# stateDot0) keep only the representation-invariant contract - their composite rows made the proof obligations unstable
# (15-25 s each), and an unstable obligation is a future false alarm.
for _k in ("stateEndValue", "state0", "state1", "stateDot0"):
    del ROWS[_k]

def bound(n): return '"(*scanner).%s$bound"' % n

def ensures_lines(name):
    rows = ROWS[name]
    out = []
    for (g, step, evs, flag, an, res, mf) in rows:
        parts = []
        same_rts = "s.returnToStep.vals == old(s.returnToStep.vals)"
        if step is None:
            parts += ["s.step == old(s.step)", same_rts]
        elif step == "POP":
            parts += ["s.step == old(s.returnToStep.vals[len(s.returnToStep.vals)-1])", "len(s.returnToStep.vals) == old(len(s.returnToStep.vals)) - 1"]
        elif isinstance(step, tuple) and step[0] == "PUSH":
            parts += ["fnis(s.step, %s)" % bound(step[1]), "len(s.returnToStep.vals) == old(len(s.returnToStep.vals)) + 1",
                      ("fnis(s.returnToStep.vals[len(s.returnToStep.vals)-1], %s)" % bound(step[2])) if step[2] else "s.returnToStep.vals[len(s.returnToStep.vals)-1] == old(s.step)"]
        elif isinstance(step, tuple) and step[0] == "PUSHSTATE":
            parts += ["fnis(s.step, %s)" % bound(step[2]), "len(s.returnToStep.vals) == old(len(s.returnToStep.vals)) + 1",
                      "fnis(s.returnToStep.vals[len(s.returnToStep.vals)-1], %s)" % bound(step[1])]
        else:
            parts += ["fnis(s.step, %s)" % bound(step), same_rts]
        parts.append("s.stack.vals == old(s.stack.vals)")
        parts.append("len(s.finds) == old(len(s.finds)) + %d" % len(evs))
        parts.append("(forall i :: 0 <= i && i < old(len(s.finds)) ==> s.finds[i] == old(s.finds[i]))")
        for j, e in enumerate(evs):
            parts.append("s.finds[old(len(s.finds)) + %d] == %d" % (j, e))
        parts.append("s.unfinishedLiteral" if flag is True else ("!s.unfinishedLiteral" if flag is False else "s.unfinishedLiteral == old(s.unfinishedLiteral)"))
        parts.append("s.annotation" if an is True else ("!s.annotation" if an is False else "s.annotation == old(s.annotation)"))
        parts.append("result0 == %d" % res)
        body = " && ".join(parts)
        if mf:
            out.append("//@   ensures @C17 (%s) ==> result1 != nil || (%s)" % (g, body))
        else:
            out.append("//@   ensures @C17 (%s) ==> result1 == nil && %s" % (g, body))
    refused = "!(" + " || ".join("(%s)" % r[0] for r in rows) + ")"
    return "\n".join(out) + "\n", refused
