#!/usr/bin/env python3
"""Instantiates the ordered-map contract template for the three generated containers
(the containers themselves are generated from one Go template by internal/cmd/generator)."""
import os
HERE = os.path.dirname(os.path.abspath(__file__))
T = open(os.path.join(HERE, "ordered_map.contracts.tmpl")).read()
HEAD = """//go:build verif

// Contracts for the deductive verifier under /verif (govc). Comment-only file: it adds no code and is
// compiled only with the build tag "verif".
// The ordered-map blocks are instantiated from /verif/tools/ordered_map.contracts.tmpl.

package %s

"""
def inst(name, pred, keytype, keysort):
    return (T.replace("{{Name}}", name).replace("{{Pred}}", pred).replace("{{KeyType}}", keytype).replace("{{KeySort}}", keysort))

def write(path, pkg, blocks, extra_file=None):
    body = HEAD % pkg + "\n".join(blocks)
    if extra_file and os.path.exists(extra_file):
        body += "\n" + open(extra_file).read()
    open(path, "w").write(body)

if __name__ == "__main__":
    write("/repo/verif_contracts.go", "schema",
          [inst("RuleASTNodes", "wfRules", "string", "Str"), inst("ASTNodes", "wfASTNodes", "string", "Str")],
          os.path.join(HERE, "schema_extra.contracts"))
    write("/repo/notations/jschema/ischema/verif_contracts.go", "ischema",
          [inst("Constraints", "wfConstraints", "constraint.Type", "Int")],
          os.path.join(HERE, "ischema_extra.contracts"))
