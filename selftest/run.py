#!/usr/bin/env python3
"""Must-fail corpus (plus a few must-stay-quiet harmless edits, "harmless": true): each case is a small property-breaking edit applied to a scratch copy of /repo (outside
/repo and /verif, removed immediately); the named property check must report a VIOLATION. Usage:
   selftest/run.py [Cxx ...]      (no argument = all cases)
Exit 0 iff every selected case is detected."""
import json, os, shutil, subprocess, sys, tempfile
HERE = os.path.dirname(os.path.abspath(__file__))
VERIF = os.path.dirname(HERE)
cases = json.load(open(os.path.join(HERE, "cases.json")))
want = set(sys.argv[1:])
env = dict(os.environ, GOFLAGS="-mod=mod", GOPROXY="off", GOSUMDB="off", GOTOOLCHAIN="local")
missed = []
# one snapshot of /repo for the whole run, so that work going on in /repo meanwhile cannot mix into the copies
base = tempfile.mkdtemp(prefix="govc-selftest-base-")
subprocess.check_call(["rsync", "-a", "--exclude", ".git", "/repo/", base + "/"])
import atexit
atexit.register(lambda: shutil.rmtree(base, ignore_errors=True))
for c in cases:
    if want and c["prop"] not in want and c["id"] not in want:
        continue
    d = tempfile.mkdtemp(prefix="govc-selftest-")
    try:
        subprocess.check_call(["rsync", "-a", base + "/", d + "/"])
        p = os.path.join(d, c["file"])
        s = open(p).read()
        if c["old"] not in s:
            print("SELFTEST-STALE %s: pattern not found in %s" % (c["id"], c["file"]))
            missed.append(c["id"])
            continue
        open(p, "w").write(s.replace(c["old"], c["new"], 1))
        b = subprocess.run(["go", "build", "./..."], cwd=d, env=env, capture_output=True, text=True)
        if b.returncode != 0:
            print("SELFTEST-STALE %s: mutant does not compile: %s" % (c["id"], b.stderr[:200]))
            missed.append(c["id"])
            continue
        e2 = dict(env, GOVC_REPO=d, GOVC_VERIF=VERIF, GOVC_SELFTEST="1", GOVC_TIMEOUT="4", GOVC_NORETRY="1")
        r = subprocess.run([os.path.join(VERIF, "bin", "govc"), "check", c["prop"], "quick"], env=e2, capture_output=True, text=True)
        viol = [l for l in r.stdout.splitlines() if l.startswith("VIOLATION")]
        if c.get("harmless"):
            if r.returncode == 0 and not viol:
                print("quiet     %-28s %s  (harmless edit, no alarm)" % (c["id"], c["prop"]))
            else:
                first = [l for l in r.stdout.splitlines() if l.startswith("  failed obligation")][:1]
                print("FALSE-ALARM %-26s %s  %s" % (c["id"], c["prop"], (first[0].strip()[:140] if first else "")))
                missed.append(c["id"])
            continue
        if r.returncode == 1 and viol:
            first = [l for l in r.stdout.splitlines() if l.startswith("  failed obligation")][:1]
            print("detected  %-28s %s  %s" % (c["id"], c["prop"], (first[0].strip()[:110] if first else "")))
        elif c.get("expected_miss"):
            print("expected-miss %-24s %s  %s" % (c["id"], c["prop"], c["expected_miss"]))
        else:
            print("MISSED    %-28s %s  (exit %d) %s" % (c["id"], c["prop"], r.returncode, c["why"]))
            missed.append(c["id"])
    finally:
        shutil.rmtree(d, ignore_errors=True)
print("selftest: %d missed" % len(missed))
sys.exit(1 if missed else 0)
